#!/bin/bash
# usage: only.sh <prop> <patch> <only-regex>
cd /repo && git apply "$2" || exit 3
cd /verif && GOVC_EVIDENCE_DIR=/verif/out/evidence_seed ./check "$1" -only "$3" 2>&1 | grep -E "^VIOLATION|quick:|VACUITY" | cut -c1-330
git -C /repo checkout -- .
