#!/bin/bash
# usage: confirm2.sh <clone> <ID>  — confirms a round-2 seeded change delivered in <clone>/out/<ID>/:
# demo passes on the clean clone, the patch applies and builds, the full suite passes with it, the demo fails with it.
wt=$1; id=$2; sd=$wt/out/$id
export GOFLAGS=-mod=mod GOPROXY=off
cd "$wt" || exit 2
git checkout -q -- .
f=$(grep -m1 '^+++ b/' "$sd/patch.diff" | sed 's|^+++ b/||')
pkgdir=$(dirname "$f")
pk=$(grep -m1 '^package ' "$sd/demo_test.go" | awk '{print $2}')
# demo may be an external test package (pkg_test): fine, same directory
cp "$sd/demo_test.go" "$pkgdir/zz_seed_demo_test.go"
clean=$(go test -vet=off -count=1 -run 'TestSeedDemo' "./$pkgdir" 2>&1 | tail -1 | cut -c1-80)
rm -f "$pkgdir/zz_seed_demo_test.go"
git apply "$sd/patch.diff" || { echo "$id: patch does not apply"; exit 2; }
build=$(go build $(go list ./... | grep -v '/out') 2>&1 | head -2)
suite=$(go test -vet=off -count=1 $(go list ./... | grep -v '/out') 2>&1 | grep -v "^ok\|no test files" | head -3)
cp "$sd/demo_test.go" "$pkgdir/zz_seed_demo_test.go"
with=$(timeout 120 go test -vet=off -count=1 -run 'TestSeedDemo' "./$pkgdir" 2>&1 | grep -a -m1 -E '^(FAIL|ok|panic|---)' | cut -c1-80)
rm -f "$pkgdir/zz_seed_demo_test.go"; git checkout -q -- .
echo "$id: clean=[$clean] build=[$build] suite_failures=[$suite] with_patch=[$with]"
