#!/usr/bin/env python3
"""Regenerates MANIFEST.json from props.json + manifest_meta.json (per-property text)."""
import json, subprocess
props = [json.loads(l) for l in open('/verif/properties.jsonl')]
cfg = json.load(open('/verif/props.json'))
meta = json.load(open('/verif/manifest_meta.json'))
commits = subprocess.run(['git','-C','/repo','log','--format=%h %s'],capture_output=True,text=True).stdout.splitlines()
hooks = [c.split()[0] for c in commits if c.split(' ',1)[1].startswith('verif:')]
checks=[]; na=[]
for p in props:
    i=p['id']
    m=meta.get(i,{})
    if i in cfg and m.get('claimed'):
        checks.append({
            "property_id": i,
            "quick_cmd": f"./check {i} --tier quick",
            "thorough_cmd": f"./check {i} --tier thorough",
            "evidence_file": f"/verif/evidence/{i}.json",
            "replay_cmd_template": f"./check {i} --replay {{path}}",
            "engine": "govc",
            "level_claimed": {"category":"proof","text":m['text'],"design_ref":m.get("design_ref","DESIGN.md section 0.2 (as built) and section 5 "+i)},
            "level_note": m['note'],
            "technique": m.get('technique',"contract-based deductive verification: WP/symbolic execution over go/ssa of the real functions, contracts in *_verif.go, obligations discharged by cvc5/z3")
        })
    else:
        na.append({"property_id": i, "reason": m.get('na_reason','not yet brought under contract in this build round (engine work in progress); no other technique substituted')})
man={
 "version":1,
 "setup_cmd":"cd engine && GOFLAGS=-mod=mod GOPROXY=off go build -o ../bin/govc ./cmd/govc",
 "hooks":{"guard":"verif","enable":"-tags=verif (*_verif.go files: contracts as comments plus small lemma-harness functions, compiled only with the tag)","baseline_off_cmd":"cd /repo && go test -mod=mod -vet=off -count=1 ./...","source_commits":hooks,"add_only":True},
 "engines":[{"name":"govc","path":"/verif/engine","serves_properties":[c['property_id'] for c in checks],"kind_free_text":"deductive verifier for Go written for this task: forward symbolic execution / weakest preconditions over go/ssa with function contracts, loop invariants (user + Houdini-synthesised), SMT discharge by a cvc5/z3 portfolio, counterexample replay through go test -overlay"}],
 "checks":checks,
 "not_applicable":na,
 "notes":"Contracts live in /repo/**/contracts_verif.go (build tag verif). known_findings.txt lists recorded defects and fix: commits. See DESIGN.md."
}
json.dump(man,open('/verif/MANIFEST.json','w'),indent=1)
print(len(checks),'checks',len(na),'n/a')
