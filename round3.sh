#!/bin/bash
# usage: round3.sh <seed-id> ...   — for seeds delivered in ${WT:-/tmp/wt3}/<prop>/out/<id>/: confirm in the scratch clone, then apply to /repo,
# run the property's quick check, revert. Prints one line per seed. Never run while another check is running.
cd /verif || exit 2
for s in "$@"; do
  p=${s%-*}
  c=$(./confirm2.sh ${WT:-/tmp/wt3}/$p $s 2>&1 | tail -1)
  if [ -n "$(git -C /repo status --porcelain --untracked-files=no)" ]; then echo "repo dirty" >&2; exit 2; fi
  if ! git -C /repo apply ${WT:-/tmp/wt3}/$p/out/$s/patch.diff; then echo "$s: patch does not apply to /repo"; continue; fi
  GOVC_EVIDENCE_DIR=/verif/out/evidence_seed ./check $p $ONLY > /tmp/round3_$s.log 2>&1; rc=$?
  git -C /repo checkout -- .
  echo "$s: exit=$rc viol=$(grep -c '^VIOLATION' /tmp/round3_$s.log) | $(grep -m3 '^VIOLATION' /tmp/round3_$s.log | sed 's/.*obligation=//' | cut -c1-150 | tr '\n' ';') | confirm: ${c:0:60} ... ${c: -70}"
done
