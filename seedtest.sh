#!/bin/bash
# usage: seedtest.sh <prop> <patch.diff>   — applies a seeded change to /repo, runs the check, reverts.
prop=$1; patch=$2
cd /repo || exit 2
if [ -n "$(git status --porcelain --untracked-files=no)" ]; then echo "repo dirty" >&2; exit 2; fi
git apply "$patch" || { echo "patch does not apply" >&2; exit 3; }
cd /verif && GOVC_EVIDENCE_DIR=/verif/out/evidence_seed ./check "$prop" --tier quick > /tmp/seedtest.out 2>&1; rc=$?
git -C /repo checkout -- .
grep -E "^(VIOLATION|KNOWN)" /tmp/seedtest.out | cut -c1-330
tail -1 /tmp/seedtest.out | cut -c1-200
echo "exit=$rc"
