#!/bin/bash
# runs every claimed check (quick tier) and prints one summary line each
cd "$(dirname "$0")"
for p in $(python3 -c "import json; print(' '.join(c['property_id'] for c in json.load(open('MANIFEST.json'))['checks']))"); do
  if [ -n "$SKIP" ] && echo "$SKIP" | grep -qw "$p"; then continue; fi
  ./check $p --tier ${TIER:-quick} > /tmp/runall_$p.log 2>&1; rc=$?
  echo "$p exit=$rc $(grep -c '^VIOLATION' /tmp/runall_$p.log) violations; $(tail -1 /tmp/runall_$p.log | cut -c1-170)"
done
