#!/usr/bin/env python3
"""Splices DESIGN_asbuilt.md into DESIGN.md between the ASBUILT markers (inserted before section 1 the first time)."""
p='/verif/DESIGN.md'
s=open(p).read()
frag=open('/verif/DESIGN_asbuilt.md').read()
b,e='<!-- ASBUILT-BEGIN -->','<!-- ASBUILT-END -->'
block=b+'\n'+frag.rstrip()+'\n'+e+'\n'
if b in s:
    s=s[:s.index(b)]+block+s[s.index(e)+len(e)+1:]
else:
    k=s.index('## 1. Why this technique')
    s=s[:k]+block+'\n'+s[k:]
    s=s.replace('Contents\n\n1. Why','Contents\n\n0. As built (build round): what exists, deviations, false alarms, findings, seeds\n1. Why',1)
    s=s.replace("Status of this document: written before any framework code (round 0).","Status of this document: sections 1-9 were written before any framework code (round 0);\nsection 0 was added during the build round and describes what was actually built.",1)
open(p,'w').write(s)
