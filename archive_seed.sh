#!/bin/bash
# usage: archive_seed.sh <prop> <X> <confirm-line>
p=$1; x=$2; shift 2
d=/verif/seeded/$p-$x; mkdir -p $d
cp /tmp/wt/$p/_seed/$x/patch.diff /tmp/wt/$p/_seed/$x/demo_test.go $d/
python3 - "$d" "/tmp/wt/$p/_seed/$x/meta.json" "$*" <<'PY'
import json,sys
d,src,conf=sys.argv[1],sys.argv[2],sys.argv[3]
try: m=json.load(open(src))
except Exception as e: m={"error":str(e)}
m["confirmed_by_me"]=conf
json.dump(m,open(d+"/meta.json","w"),indent=1)
PY
