#!/bin/bash
# Must-fail corpus: applies each seeded change that the checks are known to catch (DESIGN 0.5) to /repo, runs the
# property's quick check (restricted with -only where the full check is long), expects a VIOLATION and exit 1, and
# restores /repo. Run after every engine change. Never run while another check is running (checks read /repo).
# usage: selftest.sh [seed-id ...]
cd "$(dirname "$0")" || exit 2
HERE=$(pwd)
declare -A ONLY=(
 [C03-A]="" [C03-B]="" [C04-A]="EchoRequest" [C04-B]="WriteRawRequest" [C05-A]="header" [C05-B]="NegotiateResponse"
 [C01-A]="" [C02-A]="" [C06-A]="" [C06-B]="" [C07-A]="" [C07-B]="" [C08-B]="" [C09-A]="" [C09-B]="" [C10-A]="" [C10-B]="" [C11-A]="" [C11-B]=""
 [C12-A]="" [C12-B]="" [C13-A]="" [C13-B]="" [C14-A]="" [C14-B]="" [C15-A]="" [C15-B]="" [C16-A]="" [C16-B]=""
 [C19-A]="" [C19-B]="" [C20-A]="" [C20-B]=""
 [C01-C]="" [C01-D]="" [C02-D]="" [C03-C]="" [C03-D]="" [C04-C]="QueryInformationDiskResponse" [C04-D]="NtRenameRequest"
 [C05-C]="dialects" [C05-D]="RenameRequest" [C06-C]="" [C06-D]="" [C07-C]="" [C07-D]="" [C08-C]="" [C08-D]="" [C09-C]="" [C09-D]=""
 [C10-C]="" [C10-D]="" [C11-C]="" [C11-D]="" [C12-C]="" [C12-D]="" [C13-C]="" [C13-D]="" [C15-C]="" [C15-D]="" [C16-C]="" [C16-D]=""
 [C19-C]="" [C19-D]="" [C20-C]="" [C20-D]=""
 [C08-A]="" [C14-C]="" [C14-D]=""
 [C01-B]="" [C02-B]="" [C02-C]=""
 [C01-E]="" [C01-F]="" [C02-E]="" [C02-F]="" [C03-F]="" [C04-E]="LockByteRangeRequest" [C04-F]="EchoRequest" [C05-E]="dialects" [C05-F]="data"
 [C06-E]="" [C06-F]="" [C07-E]="" [C07-F]="" [C08-E]="" [C09-E]="" [C09-F]="" [C10-E]="" [C10-F]="" [C11-E]="" [C11-F]="" [C12-E]="" [C12-F]=""
 [C13-E]="" [C13-F]="" [C14-F]="" [C15-E]="" [C15-F]="" [C16-E]="" [C16-F]="" [C19-E]="" [C19-F]="" [C20-E]="" [C20-F]=""
 [C01-G]="" [C01-H]="" [C02-G]="" [C02-H]="" [C03-G]="" [C03-H]="" [C06-G]="" [C06-H]="" [C08-G]="" [C08-H]="" [C09-G]="" [C09-H]="" [C12-G]="" [C12-H]="" [C14-G]="" [C14-H]=""
 [C04-H]="LockingAndxRequest" [C05-G]="OEM" [C05-H]="andx" [C07-G]="" [C07-H]="" [C10-G]="" [C10-H]="" [C11-G]="" [C11-H]="" [C13-G]="" [C13-H]="" [C15-G]="" [C15-H]=""
 [C16-G]="" [C16-H]="" [C19-G]="" [C19-H]="" [C20-G]="" [C20-H]=""
)
REPO="${VERIF_REPO:-/repo}"
seeds=("$@"); [ ${#seeds[@]} -eq 0 ] && seeds=($(printf '%s\n' "${!ONLY[@]}" | sort))
fail=0
for s in "${seeds[@]}"; do
  prop=${s%-*}
  patch=$HERE/seeded/$s/patch.diff
  [ -f $HERE/seeded/$s/patch_rebased.diff ] && patch=$HERE/seeded/$s/patch_rebased.diff
  if [ -n "$(git -C "$REPO" status --porcelain --untracked-files=no)" ]; then echo "repo dirty" >&2; exit 2; fi
  if ! git -C "$REPO" apply "$patch" 2>/dev/null; then echo "$s: patch does not apply (rebase it)"; fail=1; continue; fi
  if [ -n "${ONLY[$s]}" ]; then
    GOVC_EVIDENCE_DIR=$HERE/out/evidence_seed ./check $prop -only "${ONLY[$s]}" > /tmp/selftest_$s.log 2>&1; rc=$?
  else
    GOVC_EVIDENCE_DIR=$HERE/out/evidence_seed ./check $prop > /tmp/selftest_$s.log 2>&1; rc=$?
  fi
  git -C "$REPO" checkout -- .
  n=$(grep -c '^VIOLATION' /tmp/selftest_$s.log)
  if [ $rc -eq 1 ] && [ $n -gt 0 ]; then echo "$s: caught ($n violations)"; else echo "$s: MISSED (exit $rc, $n violations)"; fail=1; fi
done
exit $fail
