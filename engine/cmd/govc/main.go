package main

import (
	"runtime/pprof"
	"encoding/json"
	"flag"
	"fmt"
	"os"
	"path/filepath"
	"regexp"
	"runtime"
	"sort"
	"strconv"
	"strings"
	"sync"
	"time"

	"go/types"

	"golang.org/x/tools/go/ssa"

	"govc/vc"
)

type SweepSpec struct {
	Pkg   string `json:"pkg"`   // import path suffix (relative to module) or "" for any loaded module package
	Match string `json:"match"` // regexp on display name, e.g. `\.Unmarshal$`
	Skip  string `json:"skip"`
}

type PropCfg struct {
	Pkgs   []string    `json:"pkgs"`
	Specs  []string    `json:"specs"`
	Sweep  []SweepSpec `json:"sweep"`
	Schema bool        `json:"schema"`
	Note   string      `json:"note"`
	Alloc  bool        `json:"alloc"`
	CmdSchema bool     `json:"cmd_schema"`
}

type NotClaimed map[string]string

var (
	repo     = flag.String("repo", "/repo", "repository")
	verifDir = flag.String("verif", "/verif", "verif dir")
	prop     = flag.String("prop", "", "property id")
	tier     = flag.String("tier", "quick", "quick|thorough")
	only     = flag.String("only", "", "regexp: only verify functions whose display name matches")
	dump     = flag.String("dump", "", "directory to dump SMT files of failing obligations")
	verbose  = flag.Bool("v", false, "verbose")
	ignoreKF = flag.Bool("ignore-known", false, "ignore known findings file (selftest)")
	listOnly = flag.Bool("list", false, "list obligations and exit")
)

func main() {
	flag.Parse()
	if *prop == "" {
		fmt.Fprintln(os.Stderr, "usage: govc -prop Cxx [-tier quick|thorough]")
		os.Exit(2)
	}
	rc := 0
	if pf := os.Getenv("GOVC_CPUPROFILE"); pf != "" {
		f, err := os.Create(pf)
		if err == nil {
			pprof.StartCPUProfile(f)
			rc = run()
			pprof.StopCPUProfile()
			f.Close()
			os.Exit(rc)
		}
	}
	os.Exit(run())
}

func loadJSON(path string, v interface{}) error {
	b, err := os.ReadFile(path)
	if err != nil {
		return err
	}
	return json.Unmarshal(b, v)
}

type oblGroup struct {
	Name      string
	Kind      string
	Fn        string
	Props     []string
	Instances []*vc.Obligation
	Status    string // discharged | failed | undecided | cover-ok | cover-failed
	Worst     *vc.Obligation
	TimeS     float64
	Solver    string
}

func run() int {
	t0 := time.Now()
	seed, _ := strconv.Atoi(os.Getenv("VERIF_SEED"))
	if t := os.Getenv("VERIF_TIER"); t != "" && !flagSet("tier") {
		*tier = t
	}
	cfgs := map[string]*PropCfg{}
	if err := loadJSON(filepath.Join(*verifDir, "props.json"), &cfgs); err != nil {
		fmt.Fprintln(os.Stderr, "props.json:", err)
		return 2
	}
	cfg := cfgs[*prop]
	if cfg == nil {
		fmt.Fprintln(os.Stderr, "unknown property", *prop)
		return 2
	}
	w, err := vc.Load(*repo, cfg.Pkgs)
	if err != nil {
		fmt.Fprintln(os.Stderr, "load:", err)
		return 2
	}
	var specFiles []string
	for _, s := range cfg.Specs {
		specFiles = append(specFiles, filepath.Join(*verifDir, "specs", s))
	}
	if err := w.LoadPrelude(specFiles); err != nil {
		fmt.Fprintln(os.Stderr, "prelude:", err)
		return 2
	}
	outDir := filepath.Join(*verifDir, "out")
	w.PF = vc.NewPortfolio(filepath.Join(outDir, "smt", *prop), 16)
	w.PF.AllAgree = *tier == "thorough"
	vc.GenBudget = 120 * time.Second
	if *tier == "thorough" {
		vc.GenBudget = 1800 * time.Second
	}
	w.Prop = *prop
	if cfg.Schema {
		w.SchemaFor = vc.DecoderSchema(w)
	}
	if cfg.Alloc {
		w.AllocBudget = vc.InputAllocBudget
	}
	var outOfSchema []string
	if cfg.CmdSchema {
		for _, sc := range w.CommandSchemas() {
			if sc.Unsup != "" {
				outOfSchema = append(outOfSchema, sc.Type+": "+sc.Unsup)
				continue
			}
			if sc.NoLayout != "" {
				outOfSchema = append(outOfSchema, sc.Type+": "+sc.NoLayout)
			}
			for _, r := range sc.Restrict {
				outOfSchema = append(outOfSchema, sc.Type+": "+r)
			}
			if os.Getenv("GOVC_SHOW_SCHEMA") == sc.Type {
				fmt.Fprintln(os.Stderr, sc.MarshalContractText())
			}
			cts, err := vc.ParseContractSource(sc.MarshalContractText(), "schema:"+sc.Type, sc.PkgPath)
			if err != nil {
				fmt.Fprintln(os.Stderr, "schema:", err)
				return 2
			}
			for _, ct := range cts {
				if _, have := w.Contracts[ct.Key]; have {
					continue
				}
				if _, ok := w.FnByKey[ct.Key]; !ok {
					continue
				}
				ct.Schema = "SMB command layout (derived from the struct declaration and MS-CIFS encoding rules)"
				w.Contracts[ct.Key] = ct
			}
		}
	}
	tLoad := time.Since(t0).Seconds()
	outOfSchemaG = outOfSchema

	// ---- select functions ----
	type job struct {
		fn     *ssa.Function
		ct     *vc.Contract
		safety bool
	}
	var jobs []job
	var lemmas []*vc.Contract
	seen := map[string]bool{}
	var onlyRe *regexp.Regexp
	if *only != "" {
		onlyRe = regexp.MustCompile(*only)
	}
	addFn := func(fn *ssa.Function, ct *vc.Contract, safety bool) {
		if seen[fn.String()] {
			return
		}
		if onlyRe != nil && !onlyRe.MatchString(vc.FnDisplay(fn)) {
			return
		}
		seen[fn.String()] = true
		jobs = append(jobs, job{fn, ct, safety})
	}
	var keys []string
	for k := range w.Contracts {
		keys = append(keys, k)
	}
	sort.Strings(keys)
	for _, k := range keys {
		ct := w.Contracts[k]
		if ct.Lemma {
			if ct.Props[*prop] && (onlyRe == nil || onlyRe.MatchString(ct.Func)) {
				lemmas = append(lemmas, ct)
			}
			continue
		}
		if ct.Iface {
			if ct.Abstract {
				if len(ct.Ensures) > 0 {
					fmt.Fprintf(os.Stderr, "contract %s: an abstract interface contract cannot have postconditions\n", ct.Key)
					return 2
				}
				continue
			}
			if ct.Props[*prop] {
				for _, ik := range ct.Impls {
					// an implementation with its own contract is verified against that one
					if own := w.Contracts[ik]; own != nil {
						addFn(w.FnByKey[ik], mergeIface(own, ct), false)
					} else {
						addFn(w.FnByKey[ik], ct, false)
					}
				}
			}
			continue
		}
		if ct.Props[*prop] && !ct.Trusted && (!ct.ThoroughOnly || *tier == "thorough" || os.Getenv("GOVC_ALL_FAMILIES") != "") {
			addFn(w.FnByKey[k], ct, false)
		}
	}
	var fnKeys []string
	for k := range w.FnByKey {
		fnKeys = append(fnKeys, k)
	}
	sort.Strings(fnKeys)
	for _, sp := range cfg.Sweep {
		re := regexp.MustCompile(sp.Match)
		var skip *regexp.Regexp
		if sp.Skip != "" {
			skip = regexp.MustCompile(sp.Skip)
		}
		for _, k := range fnKeys {
			fn := w.FnByKey[k]
			if fn.Pkg == nil || !strings.HasPrefix(fn.Pkg.Pkg.Path(), "github.com/TheManticoreProject/Manticore") {
				continue
			}
			if sp.Pkg != "" && !strings.HasSuffix(fn.Pkg.Pkg.Path(), sp.Pkg) {
				continue
			}
			if strings.HasSuffix(w.Prog.Fset.Position(fn.Pos()).Filename, "_test.go") {
				continue
			}
			d := vc.FnDisplay(fn)
			if !re.MatchString(d) || (skip != nil && skip.MatchString(d)) {
				continue
			}
			addFn(fn, w.Contracts[k], true)
		}
	}

	// ---- generate obligations (sequential: shares World.cur) with closure over used contracts ----
	var results []*vc.FnResult
	intFirst := map[string]bool{}
	tGen0 := time.Now()
	for i := 0; i < len(jobs); i++ {
		j := jobs[i]
		tg := time.Now()
		opts := vc.VerifyOpts{SafetyOnly: j.safety && (j.ct == nil || !j.ct.Props[*prop])}
		var r *vc.FnResult
		if j.ct != nil && j.ct.PreferInt && os.Getenv("GOVC_NO_PREFER_INT") == "" {
			opts.ForceInt = true
			r = w.VerifyFn(j.fn, j.ct, opts)
			if r.OutOfSubset != "" {
				opts.ForceInt = false
				r = nil
			} else {
				intFirst[vc.FnDisplay(j.fn)] = true
			}
		}
		if r == nil {
			r = w.VerifyFn(j.fn, j.ct, opts)
		}
		r.GenS = time.Since(tg).Seconds()
		results = append(results, r)
		if *verbose {
			fmt.Fprintf(os.Stderr, "gen %-70s obls=%d paths=%d %.2fs %s\n", r.Name, len(r.Obls), r.Paths, r.GenS, r.OutOfSubset)
		}
		for _, k := range r.UsedContracts {
			if ct := w.Contracts[k]; ct != nil && ct.Iface && ct.Abstract {
				continue
			}
			if ct := w.Contracts[k]; ct != nil && ct.Iface {
				for _, ik := range ct.Impls {
					if own := w.Contracts[ik]; own != nil {
						addFn(w.FnByKey[ik], mergeIface(own, ct), false)
					} else {
						addFn(w.FnByKey[ik], ct, false)
					}
				}
				continue
			}
			if fn := w.FnByKey[k]; fn != nil {
				if ct := w.Contracts[k]; ct != nil && !ct.Trusted {
					addFn(fn, ct, false)
				}
			}
		}
	}
	for _, l := range lemmas {
		var tp *types.Package
		for _, p := range w.Prog.AllPackages() {
			if p.Pkg.Path() == l.PkgPath {
				tp = p.Pkg
			}
		}
		if l.Table {
			var sp *ssa.Package
			for _, p := range w.Prog.AllPackages() {
				if p.Pkg.Path() == l.PkgPath {
					sp = p
				}
			}
			results = append(results, w.VerifyTable(l, sp))
			continue
		}
		results = append(results, w.VerifyLemma(l, tp))
	}
	tGen := time.Since(tGen0).Seconds()

	// ---- discharge ----
	timeout := 10.0
	if *tier == "thorough" {
		timeout = 60.0
	}
	var all []*vc.Obligation
	ctxOf := map[*vc.Obligation]*vc.FnResult{}
	for _, r := range results {
		for _, o := range r.Obls {
			// clauses tagged for other properties only are checked by those properties' checks
			if len(o.Props) > 0 && !o.Cover && o.Kind != "inv-init" && o.Kind != "inv-step" {
				mine := false
				for _, p := range o.Props {
					if p == *prop {
						mine = true
					}
				}
				if !mine {
					continue
				}
			}
			all = append(all, o)
			ctxOf[o] = r
		}
	}
	if *listOnly {
		for _, o := range all {
			fmt.Printf("%s\t%v\ttrivial=%v\n", o.Name, o.Props, o.Trivial)
		}
		return 0
	}
	tSolve0 := time.Now()
	var wg sync.WaitGroup
	par := make(chan struct{}, runtime.NumCPU())
	// scripts must be generated sequentially per Ctx (Ctx is not thread-safe); pre-render
	scripts := make([]string, len(all))
	for i, o := range all {
		if o.Trivial || o.Closed {
			continue
		}
		r := ctxOf[o]
		asserts := append([]*vc.Term{}, o.Assume...)
		if !o.Cover {
			asserts = append(asserts, r.Ctx.Not(o.Goal))
		}
		scripts[i] = r.Ctx.Script(w.Prelude, asserts, nil)
		if pat := os.Getenv("GOVC_DUMP_MATCH"); pat != "" && strings.Contains(o.Name, pat) {
			os.MkdirAll("/tmp/govc_dump", 0o755)
			os.WriteFile(filepath.Join("/tmp/govc_dump", safeName(o.Name)+fmt.Sprintf("_p%d.smt2", o.Path)), []byte(scripts[i]), 0o644)
		}
	}
	for i, o := range all {
		if o.Trivial || o.Closed {
			continue
		}
		i, o := i, o
		wg.Add(1)
		par <- struct{}{}
		go func() {
			defer wg.Done()
			defer func() { <-par }()
			// first pass with a short budget: what it leaves undecided goes to the other integer encoding
			// (full budget) and then to the escalation pass (three times the budget, low parallelism)
			to := timeout * 0.4
			if o.Cover {
				to = 5
			}
			res := w.PF.Solve(scripts[i], to)
			o.Status, o.Solver, o.TimeS, o.Raw, o.SMTHash = res.Status, res.Solver, res.TimeS, res.Raw, res.Hash
		}()
	}
	wg.Wait()
	tSolve := time.Since(tSolve0).Seconds()

	// ---- aggregate ----
	groups := map[string]*oblGroup{}
	var order []string
	for _, o := range all {
		g := groups[o.Name]
		if g == nil {
			g = &oblGroup{Name: o.Name, Kind: o.Kind, Fn: o.Fn, Props: o.Props}
			groups[o.Name] = g
			order = append(order, o.Name)
		}
		g.Instances = append(g.Instances, o)
	}
	for _, g := range groups {
		if g.Kind == "cover" {
			g.Status = "cover-failed"
			for _, o := range g.Instances {
				if o.Status == "sat" {
					g.Status = "cover-ok"
				} else if o.Status != "unsat" && g.Status != "cover-ok" {
					g.Status = "cover-undecided"
				}
				g.TimeS += o.TimeS
			}
			continue
		}
		g.Status = "discharged"
		for _, o := range g.Instances {
			g.TimeS += o.TimeS
			switch o.Status {
			case "unsat", "trivial":
				if g.Solver == "" {
					g.Solver = o.Solver
				}
			case "sat":
				if g.Status != "failed" {
					g.Status = "failed"
					g.Worst = o
				}
			default:
				if g.Status == "discharged" {
					g.Status = "undecided"
					g.Worst = o
				}
			}
		}
	}

	// ---- mode portfolio: obligations undecided over bit-vectors are retried in mathematical-integer mode
	// (exact wrap-around encoding, interval-elided); either encoding is a faithful model of the Go semantics.
	intRetried := 0
	intDischarged := 0
	{
		undecidedFns := map[string]bool{}
		for _, g := range groups {
			if g.Kind != "cover" && g.Status == "undecided" {
				undecidedFns[g.Fn] = true
			}
		}
		type retry struct {
			name   string
			r2     *vc.FnResult
			byName map[string][]*vc.Obligation
		}
		var retries []*retry
		var wg2 sync.WaitGroup
		for i := 0; i < len(jobs) && len(undecidedFns) > 0; i++ {
			j := jobs[i]
			name := vc.FnDisplay(j.fn)
			if !undecidedFns[name] || (j.ct != nil && j.ct.Mode == "int") {
				continue
			}
			r2 := w.VerifyFn(j.fn, j.ct, vc.VerifyOpts{ForceInt: !intFirst[name], SafetyOnly: j.safety && (j.ct == nil || !j.ct.Props[*prop])})
			if r2.OutOfSubset != "" {
				if *verbose {
					fmt.Fprintf(os.Stderr, "other-mode retry of %s: out of subset: %s\n", name, r2.OutOfSubset)
				}
				continue
			}
			intRetried++
			rt := &retry{name: name, r2: r2, byName: map[string][]*vc.Obligation{}}
			retries = append(retries, rt)
			for _, o := range r2.Obls {
				rt.byName[o.Name] = append(rt.byName[o.Name], o)
			}
			for gname, g := range groups {
				if g.Fn != name || g.Kind == "cover" || g.Status != "undecided" {
					continue
				}
				for _, o := range rt.byName[gname] {
					if o.Trivial {
						continue
					}
					o := o
					asserts := append([]*vc.Term{}, o.Assume...)
					asserts = append(asserts, r2.Ctx.Not(o.Goal))
					script := r2.Ctx.Script(w.Prelude, asserts, nil)
					if *dump != "" {
						os.MkdirAll(*dump, 0o755)
						os.WriteFile(filepath.Join(*dump, safeName(o.Name)+fmt.Sprintf("_int_p%d.smt2", o.Path)), []byte(script), 0o644)
					}
					wg2.Add(1)
					go func() {
						par <- struct{}{}
						defer wg2.Done()
						defer func() { <-par }()
						res := w.PF.Solve(script, timeout)
						o.Status, o.Solver, o.TimeS, o.Raw, o.SMTHash = res.Status, res.Solver, res.TimeS, res.Raw, res.Hash
					}()
				}
			}
		}
		wg2.Wait()
		for _, rt := range retries {
			for gname, g := range groups {
				if g.Fn != rt.name || g.Kind == "cover" || g.Status != "undecided" {
					continue
				}
				os2 := rt.byName[gname]
				if len(os2) == 0 {
					continue
				}
				all := true
				var bad *vc.Obligation
				for _, o := range os2 {
					if o.Status == "sat" && bad == nil {
						bad = o
					}
					if o.Status != "unsat" && o.Status != "trivial" {
						all = false
					}
				}
				if all {
					g.Status = "discharged"
					g.Solver = "other-mode:" + os2[0].Solver
					g.TimeS = 0
					for _, o := range os2 {
						g.TimeS += o.TimeS
					}
					g.TimeS += 1000 // marker: first encoding timed out; the remainder is the deciding encoding's time
					intDischarged++
				} else if bad != nil {
					g.Status = "failed"
					g.Worst = bad
					ctxOf[bad] = rt.r2
				}
			}
		}
	}
	// ---- escalation: what is still undecided gets one more attempt with three times the timeout and little
	// parallelism, so that a machine under load does not turn a slow proof into an alarm
	{
		nc := NotClaimed{}
		loadJSON(filepath.Join(*verifDir, "claims", *prop+".json"), &nc)
		idx := map[*vc.Obligation]int{}
		for i, o := range all {
			idx[o] = i
		}
		var wg3 sync.WaitGroup
		par3 := make(chan struct{}, 4)
		var redo []*oblGroup
		for _, name := range order {
			g := groups[name]
			if g.Kind == "cover" || g.Status != "undecided" {
				continue
			}
			if _, skip := nc[name]; skip {
				continue
			}
			redo = append(redo, g)
			for _, o := range g.Instances {
				if o.Status == "unsat" || o.Status == "trivial" || o.Status == "sat" {
					continue
				}
				o := o
				wg3.Add(1)
				go func() {
					par3 <- struct{}{}
					defer wg3.Done()
					defer func() { <-par3 }()
					res := w.PF.Solve(scripts[idx[o]], timeout*3)
					o.Status, o.Solver, o.TimeS, o.Raw, o.SMTHash = res.Status, res.Solver+"(escalated)", res.TimeS, res.Raw, res.Hash
				}()
			}
		}
		wg3.Wait()
		esc := 0
		for _, g := range redo {
			all2 := true
			for _, o := range g.Instances {
				if o.Status == "sat" {
					g.Status = "failed"
					g.Worst = o
					all2 = false
					break
				}
				if o.Status != "unsat" && o.Status != "trivial" {
					all2 = false
				}
			}
			if all2 {
				g.Status = "discharged"
				g.Solver = "escalated"
				esc++
			}
		}
		if *verbose && len(redo) > 0 {
			fmt.Fprintf(os.Stderr, "escalation: %d obligations retried with timeout x3, %d discharged\n", len(redo), esc)
		}
	}
	if *verbose && intRetried > 0 {
		fmt.Fprintf(os.Stderr, "other-mode retry (int<->bv): %d functions, %d obligations discharged\n", intRetried, intDischarged)
	}

	// ---- known findings / not-claimed ----
	known := loadKnown(filepath.Join(*verifDir, "known_findings.txt"), *prop)
	if *ignoreKF {
		known = nil
	}
	notClaimed := NotClaimed{}
	loadJSON(filepath.Join(*verifDir, "claims", *prop+".json"), &notClaimed)

	var violations []*oblGroup
	var knownHit []*oblGroup
	var skipped []*oblGroup
	nObl, nDis := 0, 0
	coverOK, coverBad := 0, 0
	for _, name := range order {
		g := groups[name]
		if g.Kind == "cover" {
			if g.Status == "cover-ok" {
				coverOK++
			} else {
				coverBad++
				fmt.Fprintf(os.Stderr, "  note: cover not decided satisfiable: %s (%s)\n", name, g.Status)
			}
			continue
		}
		if _, nc := notClaimed[name]; nc {
			skipped = append(skipped, g)
			continue
		}
		if g.Status == "discharged" {
			nObl++
			nDis++
			continue
		}
		if kf := matchKnown(known, name); kf != nil {
			kf.hit = true
			knownHit = append(knownHit, g)
			continue
		}
		nObl++
		violations = append(violations, g)
	}

	// ---- report ----
	replayDir := filepath.Join(outDir, "replay", *prop)
	os.MkdirAll(replayDir, 0o755)
	exit := 0
	for _, g := range knownHit {
		fmt.Printf("KNOWN-FINDING: property=%s %s (%s)\n", *prop, g.Name, g.Status)
	}
	for _, g := range violations {
		r := ctxOf[g.Worst]
		path := filepath.Join(replayDir, safeName(g.Name)+".json")
		info := vc.Replay(w, r, g.Worst, *repo, filepath.Join(outDir, "tmp"))
		rep := map[string]interface{}{
			"property": *prop, "obligation": g.Name, "kind": g.Kind, "function": g.Fn, "status": g.Worst.Status,
			"solver": g.Worst.Solver, "solver_output": g.Worst.Raw, "position": g.Worst.Pos.String(), "replay": info,
		}
		b, _ := json.MarshalIndent(rep, "", " ")
		os.WriteFile(path, b, 0o644)
		suffix := ""
		if info == nil || !info.Reproduced {
			suffix = " no-failing-input-found"
		}
		fmt.Printf("VIOLATION property=%s replay=%s obligation=%q%s\n", *prop, path, g.Name, suffix)
		if *dump != "" {
			os.MkdirAll(*dump, 0o755)
			for k, o := range g.Instances {
				if o.Trivial || ctxOf[o] == nil {
					continue
				}
				as := append([]*vc.Term{}, o.Assume...)
				as = append(as, ctxOf[o].Ctx.Not(o.Goal))
				os.WriteFile(filepath.Join(*dump, safeName(g.Name)+fmt.Sprintf("_i%d_%s_%s.smt2", k, o.Status, o.Solver)), []byte(ctxOf[o].Ctx.Script(w.Prelude, as, nil)), 0o644)
			}
			asserts := append([]*vc.Term{}, g.Worst.Assume...)
			asserts = append(asserts, r.Ctx.Not(g.Worst.Goal))
			os.WriteFile(filepath.Join(*dump, safeName(g.Name)+".smt2"), []byte(r.Ctx.Script(w.Prelude, asserts, nil)), 0o644)
		}
		exit = 1
	}
	// a function under contract that can no longer be brought into the verifier's subset (path explosion, unroll
	// bound exceeded, unsupported construct) has lost all its obligations: on the unchanged tree there is none, so
	// this is reported like an undischarged obligation, not silently skipped
	for _, r := range results {
		if r.OutOfSubset == "" && r.Paths == 0 && groups[r.Name+"#cover:return"] == nil && r.Contract != nil && !r.Contract.Lemma && !r.Contract.Table {
			// no path of the function reaches a return any more (every path ends in a panic, an unsupported
			// construct or an infeasible assumption): its postconditions have become vacuous
			r.OutOfSubset = "symbolic execution produced no terminating path"
		}
	}
	for _, r := range results {
		if r.OutOfSubset == "" {
			continue
		}
		name := r.Name + "#generation:out-of-subset"
		if _, nc := notClaimed[name]; nc {
			continue
		}
		if kf := matchKnown(known, name); kf != nil {
			kf.hit = true
			fmt.Printf("KNOWN-FINDING: property=%s %s (undecided)\n", *prop, name)
			continue
		}
		path := filepath.Join(replayDir, safeName(name)+".json")
		rep := map[string]interface{}{
			"property": *prop, "obligation": name, "kind": "generation", "function": r.Name, "status": "undecided",
			"solver_output": "the verification conditions of this function could not be generated: " + r.OutOfSubset,
			"replay": map[string]interface{}{"reproduced": false, "note": "no obligations were generated, so there is no counterexample to replay"},
		}
		b, _ := json.MarshalIndent(rep, "", " ")
		os.WriteFile(path, b, 0o644)
		fmt.Printf("VIOLATION property=%s replay=%s obligation=%q no-failing-input-found\n", *prop, path, name)
		exit = 1
	}
	if len(w.PF.Disagree) > 0 {
		fmt.Fprintf(os.Stderr, "ENGINE FAULT: solver disagreement: %v\n", w.PF.Disagree)
		exit = 2
	}
	// vacuity: must have obligations; requires must be satisfiable for every verified function
	var vac []string
	for _, r := range results {
		if r.OutOfSubset != "" {
			continue
		}
		g := groups[r.Name+"#cover:requires"]
		if g != nil && g.Status == "cover-failed" {
			vac = append(vac, r.Name+": contradictory requires")
		}
		gr := groups[r.Name+"#cover:return"]
		if gr != nil && gr.Status == "cover-failed" {
			vac = append(vac, r.Name+": no normal return reachable")
		}
		if gr == nil && r.Paths == 0 && (r.Contract == nil || !r.Contract.Lemma) {
			vac = append(vac, r.Name+": symbolic execution produced no terminating path")
		}
	}
	if nObl == 0 && len(knownHit) == 0 {
		fmt.Fprintf(os.Stderr, "ENGINE FAULT: zero obligations for %s\n", *prop)
		exit = 2
	}
	if *dump != "" {
		os.MkdirAll(*dump, 0o755)
		for _, o := range all {
			if o.Cover && o.Status != "sat" {
				os.WriteFile(filepath.Join(*dump, safeName(o.Name)+fmt.Sprintf("_p%d.smt2", o.Path)), []byte(ctxOf[o].Ctx.Script(w.Prelude, o.Assume, nil)), 0o644)
			}
		}
	}
	for _, v := range vac {
		fmt.Fprintf(os.Stderr, "VACUITY: %s\n", v)
		if exit == 0 {
			exit = 2
		}
	}

	if *verbose {
		for _, name := range order {
			g := groups[name]
			if g.Kind != "cover" && (g.TimeS > 3 || strings.Contains(g.Solver, "other-mode") || g.Solver == "escalated") {
				fmt.Fprintf(os.Stderr, "  slow: %.1fs %s via %s: %s\n", g.TimeS, g.Status, g.Solver, name)
			}
		}
	}
	// ---- evidence ----
	wall := time.Since(t0).Seconds()
	writeEvidence(w, cfg, results, groups, order, violations, knownHit, skipped, nObl, nDis, coverOK, coverBad, seed, wall, tLoad, tGen, tSolve, known)
	fmt.Fprintf(os.Stderr, "%s %s: %d functions, %d obligations (%d discharged, %d known findings, %d not-claimed, %d violations), covers ok=%d bad=%d, %.1fs (load %.1f gen %.1f solve %.1f)\n",
		*prop, *tier, len(results), nObl, nDis, len(knownHit), len(skipped), len(violations), coverOK, coverBad, wall, tLoad, tGen, tSolve)
	for _, r := range results {
		if r.OutOfSubset != "" {
			fmt.Fprintf(os.Stderr, "  out-of-subset: %s: %s\n", r.Name, r.OutOfSubset)
		}
	}
	for _, kf := range known {
		if !kf.hit && !*ignoreKF {
			fmt.Fprintf(os.Stderr, "  note: known finding no longer observed: %s\n", kf.obligation)
		}
	}
	return exit
}

func flagSet(name string) bool {
	found := false
	flag.Visit(func(f *flag.Flag) {
		if f.Name == name {
			found = true
		}
	})
	return found
}

func safeName(s string) string {
	var sb strings.Builder
	for _, r := range s {
		if (r >= 'a' && r <= 'z') || (r >= 'A' && r <= 'Z') || (r >= '0' && r <= '9') || r == '.' || r == '-' || r == '_' {
			sb.WriteRune(r)
		} else {
			sb.WriteByte('_')
		}
	}
	n := sb.String()
	if len(n) > 150 {
		n = n[:150]
	}
	return n
}

type knownFinding struct {
	obligation string
	what       string
	hit        bool
}

var kfRe = regexp.MustCompile(`^finding:\s+property=(\S+)\s+obligation=(.+?)\s+::\s*(.*)$`)

func loadKnown(path, prop string) []*knownFinding {
	b, err := os.ReadFile(path)
	if err != nil {
		return nil
	}
	var out []*knownFinding
	for _, line := range strings.Split(string(b), "\n") {
		m := kfRe.FindStringSubmatch(strings.TrimSpace(line))
		if m == nil || m[1] != prop {
			continue
		}
		out = append(out, &knownFinding{obligation: m[2], what: m[3]})
	}
	return out
}

func matchKnown(ks []*knownFinding, name string) *knownFinding {
	for _, k := range ks {
		if k.obligation == name {
			return k
		}
	}
	return nil
}

var outOfSchemaG []string

func writeEvidence(w *vc.World, cfg *PropCfg, results []*vc.FnResult, groups map[string]*oblGroup, order []string, violations, knownHit, skipped []*oblGroup,
	nObl, nDis, coverOK, coverBad, seed int, wall, tLoad, tGen, tSolve float64, known []*knownFinding) {
	var fns []map[string]interface{}
	assume := map[string]bool{}
	var oos []string
	for _, r := range results {
		m := map[string]interface{}{"function": r.Name, "mode": r.Mode, "paths": r.Paths, "obligation_instances": len(r.Obls), "gen_s": round3(r.GenS)}
		if r.Contract != nil {
			m["contract"] = strings.TrimPrefix(r.Contract.File, "/repo/")
			if r.Contract.Schema != "" {
				m["contract"] = "schema:" + r.Contract.Schema
			}
		} else {
			m["contract"] = "safety-only (no-panic, termination measure where found)"
		}
		if r.OutOfSubset != "" {
			m["out_of_subset"] = r.OutOfSubset
			oos = append(oos, r.Name+": "+r.OutOfSubset)
		}
		if len(r.Inlined) > 0 {
			m["inlined_callees"] = r.Inlined
		}
		if len(r.UsedContracts) > 0 {
			m["callee_contracts"] = r.UsedContracts
		}
		if len(r.LoopInfo) > 0 {
			m["loops"] = r.LoopInfo
		}
		if len(r.Notes) > 0 {
			m["notes"] = r.Notes
		}
		for _, i := range r.Intrinsics {
			assume["stdlib model (trusted): "+i] = true
		}
		for _, a := range r.Abstracted {
			assume["abstracted (result unconstrained): "+a] = true
		}
		fns = append(fns, m)
	}
	var samples []map[string]interface{}
	byBackend := map[string]int{}
	for _, name := range order {
		g := groups[name]
		if g.Kind == "cover" {
			continue
		}
		s := g.Solver
		if s == "" {
			s = "simplifier"
		}
		if g.Status == "discharged" {
			byBackend[s]++
		}
		if len(samples) < 40 {
			samples = append(samples, map[string]interface{}{"obligation": name, "status": g.Status, "instances": len(g.Instances), "backend": s, "solver_s": round3(g.TimeS), "props": g.Props})
		}
	}
	var kf []string
	for _, g := range knownHit {
		kf = append(kf, g.Name)
	}
	var nc []string
	for _, g := range skipped {
		nc = append(nc, g.Name+" ["+g.Status+"]")
	}
	var vio []string
	for _, g := range violations {
		vio = append(vio, g.Name)
	}
	var asl []string
	for a := range assume {
		asl = append(asl, a)
	}
	sort.Strings(asl)
	asl = append(asl,
		"go/packages + go/ssa (x/tools v0.29.0) give a faithful SSA of /repo's working tree (linux/amd64, tag verif)",
		"govc itself: SSA symbolic executor, SMT encoding, contract parser",
		"SMT solvers cvc5 1.0.x, z3 5.1.0, z3 4.8.12 (first definite answer; thorough tier cross-checks)",
		"pointer/slice parameters denote pairwise distinct objects (separation default); lengths of inputs and of results of abstracted calls <= 2^40 (allocations may ask for up to 2^48 elements); int is 64 bits",
		"append results are modelled as not aliasing older views of a reallocated array")
	if cfg.Note != "" {
		asl = append(asl, cfg.Note)
	}
	solverTime := map[string]float64{}
	for k, v := range w.PF.Total {
		solverTime[k] = round3(v)
	}
	ev := map[string]interface{}{
		"property_id": *prop, "tier": *tier, "seed": seed, "level": "proof",
		"coverage": map[string]interface{}{
			"obligations": nObl, "discharged": nDis,
			"checker_cmd":  fmt.Sprintf("bin/govc -prop %s -tier %s", *prop, *tier),
			"trusted_base": []string{"x/tools go/ssa v0.29.0", "govc VC generator", "cvc5", "z3-new", "z3", "spec library /verif/specs", "stdlib models listed under assumptions"},
			"samples":      samples,
			"functions_under_contract": fns,
			"discharged_by_backend":    byBackend,
			"solver_time_s":            solverTime,
			"solver_queries":           w.PF.Queries,
			"cover_checks":             map[string]int{"satisfiable": coverOK, "not_satisfiable_or_undecided": coverBad},
			"known_finding_obligations": kf,
			"attempted_not_claimed":     nc,
			"out_of_subset":             oos,
			"out_of_schema":             outOfSchemaG,
			"violations":                vio,
			"timing_s":                  map[string]float64{"load": round3(tLoad), "generate": round3(tGen), "solve": round3(tSolve)},
			"contract_files":            relAll(w.ContractFiles),
		},
		"assumptions": asl,
		"wall_s":      round3(wall),
		"violations":  len(violations),
	}
	b, _ := json.MarshalIndent(ev, "", " ")
	// a partial run (-only) or a run redirected by GOVC_EVIDENCE_DIR (seed tests) must not replace the record of the
	// full check
	dir := filepath.Join(*verifDir, "evidence")
	if d := os.Getenv("GOVC_EVIDENCE_DIR"); d != "" {
		dir = d
	} else if *only != "" {
		dir = filepath.Join(*verifDir, "out", "evidence_partial")
	}
	os.MkdirAll(dir, 0o755)
	os.WriteFile(filepath.Join(dir, *prop+".json"), b, 0o644)
}

func relAll(fs []string) []string {
	var out []string
	for _, f := range fs {
		out = append(out, strings.TrimPrefix(f, "/repo/"))
	}
	return out
}

func round3(f float64) float64 { return float64(int(f*1000+0.5)) / 1000 }

// mergeIface: an implementation with its own contract must also satisfy the interface contract
// (behavioural subtyping): its postconditions are added to the implementation's.
func mergeIface(own, iface *vc.Contract) *vc.Contract {
	m := *own
	m.Ensures = append(append([]*vc.Clause{}, own.Ensures...), iface.Ensures...)
	m.Props = map[string]bool{}
	for k := range own.Props {
		m.Props[k] = true
	}
	for k := range iface.Props {
		m.Props[k] = true
	}
	return &m
}
