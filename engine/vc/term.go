// Package vc: verification-condition generator for Go SSA (govc).
// term.go: hash-consed SMT term DAG with constant folding and SMT-LIB printing.
package vc

import (
	"fmt"
	"math/big"
	"sort"
	"strings"
)

// Sort of a term.
type Sort struct {
	K int // 0 bool, 1 bitvec, 2 int
	W int // width for bitvec
}

var (
	BoolS = Sort{K: 0}
	IntS  = Sort{K: 2}
)

func BV(w int) Sort { return Sort{K: 1, W: w} }

func (s Sort) SMT() string {
	switch s.K {
	case 0:
		return "Bool"
	case 1:
		return fmt.Sprintf("(_ BitVec %d)", s.W)
	}
	return "Int"
}
func (s Sort) IsBV() bool   { return s.K == 1 }
func (s Sort) IsInt() bool  { return s.K == 2 }
func (s Sort) IsBool() bool { return s.K == 0 }

// Term is an immutable, hash-consed node.
type Term struct {
	Op   string // smt op, or "const", "var", "app" (uninterpreted / spec fn application)
	Name string // for var/app: symbol
	Args []*Term
	S    Sort
	C    *big.Int // for const (bool: 0/1)
	P    [2]int   // parameters for extract / zero_extend / sign_extend
	id   int
	key  string
}

// Decl describes an uninterpreted symbol.
type Decl struct {
	Name string
	Args []Sort
	Ret  Sort
}

// Ctx owns the hash-cons table and declarations.
type Ctx struct {
	tab   map[string]*Term
	next  int
	Decls map[string]*Decl
	fresh map[string]int
	// Defs: names of spec functions (defined in prelude) — not declared by us.
	SpecFns map[string]*Decl
	ivs      map[int]*ival
	appRange map[string]*ival // value range of uninterpreted functions (array element ranges)
}

func NewCtx() *Ctx {
	return &Ctx{tab: map[string]*Term{}, Decls: map[string]*Decl{}, fresh: map[string]int{}, SpecFns: map[string]*Decl{}, appRange: map[string]*ival{}}
}

func (c *Ctx) mk(t *Term) *Term {
	var sb strings.Builder
	sb.WriteString(t.Op)
	sb.WriteByte('|')
	sb.WriteString(t.Name)
	sb.WriteByte('|')
	fmt.Fprintf(&sb, "%d.%d|%d.%d|", t.S.K, t.S.W, t.P[0], t.P[1])
	if t.C != nil {
		sb.WriteString(t.C.String())
	}
	for _, a := range t.Args {
		fmt.Fprintf(&sb, ",%d", a.id)
	}
	k := sb.String()
	if o, ok := c.tab[k]; ok {
		return o
	}
	c.next++
	t.id = c.next
	t.key = k
	c.tab[k] = t
	return t
}

func (t *Term) ID() int { return t.id }

func (t *Term) IsConst() bool { return t.Op == "const" }
func (t *Term) IsTrue() bool  { return t.Op == "const" && t.S.IsBool() && t.C.Sign() != 0 }
func (t *Term) IsFalse() bool { return t.Op == "const" && t.S.IsBool() && t.C.Sign() == 0 }

// Uint64 value of a constant (unsigned for bv).
func (t *Term) Uint64() uint64 { return t.C.Uint64() }

// Int64 value (signed interpretation for bv).
func (t *Term) SInt() *big.Int {
	if t.S.IsBV() {
		return toSigned(t.C, t.S.W)
	}
	return t.C
}

func toSigned(v *big.Int, w int) *big.Int {
	if v.Bit(w-1) == 1 {
		return new(big.Int).Sub(v, new(big.Int).Lsh(big.NewInt(1), uint(w)))
	}
	return v
}

func mask(w int) *big.Int {
	return new(big.Int).Sub(new(big.Int).Lsh(big.NewInt(1), uint(w)), big.NewInt(1))
}

func norm(v *big.Int, w int) *big.Int {
	return new(big.Int).And(v, mask(w))
}

// ---- constructors ----

func (c *Ctx) Bool(b bool) *Term {
	v := big.NewInt(0)
	if b {
		v = big.NewInt(1)
	}
	return c.mk(&Term{Op: "const", S: BoolS, C: v})
}
func (c *Ctx) True() *Term  { return c.Bool(true) }
func (c *Ctx) False() *Term { return c.Bool(false) }

func (c *Ctx) BVConst(v *big.Int, w int) *Term {
	return c.mk(&Term{Op: "const", S: BV(w), C: norm(v, w)})
}
func (c *Ctx) BVu(v uint64, w int) *Term { return c.BVConst(new(big.Int).SetUint64(v), w) }
func (c *Ctx) IntConst(v *big.Int) *Term {
	return c.mk(&Term{Op: "const", S: IntS, C: new(big.Int).Set(v)})
}
func (c *Ctx) Inti(v int64) *Term { return c.IntConst(big.NewInt(v)) }

// NumConst makes a constant of sort s from an integer value.
func (c *Ctx) NumConst(v *big.Int, s Sort) *Term {
	if s.IsBV() {
		return c.BVConst(v, s.W)
	}
	if s.IsInt() {
		return c.IntConst(v)
	}
	return c.Bool(v.Sign() != 0)
}

func (c *Ctx) Var(name string, s Sort) *Term {
	if _, ok := c.Decls[name]; !ok {
		c.Decls[name] = &Decl{Name: name, Ret: s}
	}
	return c.mk(&Term{Op: "var", Name: name, S: s})
}

// Fresh makes a fresh variable with a readable prefix.
func (c *Ctx) Fresh(prefix string, s Sort) *Term {
	prefix = sanitize(prefix)
	c.fresh[prefix]++
	n := c.fresh[prefix]
	name := fmt.Sprintf("%s!%d", prefix, n)
	return c.Var(name, s)
}

func (c *Ctx) FreshName(prefix string) string {
	prefix = sanitize(prefix)
	c.fresh[prefix]++
	return fmt.Sprintf("%s!%d", prefix, c.fresh[prefix])
}

func sanitize(s string) string {
	var sb strings.Builder
	for _, r := range s {
		if (r >= 'a' && r <= 'z') || (r >= 'A' && r <= 'Z') || (r >= '0' && r <= '9') || r == '_' || r == '.' {
			sb.WriteRune(r)
		} else {
			sb.WriteByte('_')
		}
	}
	if sb.Len() == 0 {
		return "v"
	}
	return sb.String()
}

// DeclareFn declares an uninterpreted function.
func (c *Ctx) DeclareFn(name string, args []Sort, ret Sort) {
	if _, ok := c.Decls[name]; !ok {
		c.Decls[name] = &Decl{Name: name, Args: args, Ret: ret}
	}
}

// App applies an uninterpreted or spec function.
func (c *Ctx) App(name string, ret Sort, args ...*Term) *Term {
	if _, isSpec := c.SpecFns[name]; !isSpec {
		if _, ok := c.Decls[name]; !ok {
			as := make([]Sort, len(args))
			for i, a := range args {
				as[i] = a.S
			}
			c.Decls[name] = &Decl{Name: name, Args: as, Ret: ret}
		}
	}
	return c.mk(&Term{Op: "app", Name: name, Args: args, S: ret})
}

func (c *Ctx) Not(a *Term) *Term {
	if a.IsConst() {
		return c.Bool(a.C.Sign() == 0)
	}
	if a.Op == "not" {
		return a.Args[0]
	}
	return c.mk(&Term{Op: "not", Args: []*Term{a}, S: BoolS})
}

func (c *Ctx) And(as ...*Term) *Term {
	var out []*Term
	seen := map[int]bool{}
	for _, a := range as {
		if a.IsFalse() {
			return c.False()
		}
		if a.IsTrue() {
			continue
		}
		if a.Op == "and" {
			for _, b := range a.Args {
				if !seen[b.id] {
					seen[b.id] = true
					out = append(out, b)
				}
			}
			continue
		}
		if !seen[a.id] {
			seen[a.id] = true
			out = append(out, a)
		}
	}
	for _, a := range out {
		if a.Op == "not" && seen[a.Args[0].id] {
			return c.False()
		}
	}
	if len(out) == 0 {
		return c.True()
	}
	if len(out) == 1 {
		return out[0]
	}
	return c.mk(&Term{Op: "and", Args: out, S: BoolS})
}

func (c *Ctx) Or(as ...*Term) *Term {
	var out []*Term
	seen := map[int]bool{}
	for _, a := range as {
		if a.IsTrue() {
			return c.True()
		}
		if a.IsFalse() {
			continue
		}
		if a.Op == "or" {
			for _, b := range a.Args {
				if !seen[b.id] {
					seen[b.id] = true
					out = append(out, b)
				}
			}
			continue
		}
		if !seen[a.id] {
			seen[a.id] = true
			out = append(out, a)
		}
	}
	for _, a := range out {
		if a.Op == "not" && seen[a.Args[0].id] {
			return c.True()
		}
	}
	if len(out) == 0 {
		return c.False()
	}
	if len(out) == 1 {
		return out[0]
	}
	return c.mk(&Term{Op: "or", Args: out, S: BoolS})
}

func (c *Ctx) Implies(a, b *Term) *Term { return c.Or(c.Not(a), b) }

func (c *Ctx) Ite(cond, a, b *Term) *Term {
	if cond.IsTrue() {
		return a
	}
	if cond.IsFalse() {
		return b
	}
	if a == b {
		return a
	}
	if a.S.IsBool() {
		if a.IsTrue() && b.IsFalse() {
			return cond
		}
		if a.IsFalse() && b.IsTrue() {
			return c.Not(cond)
		}
		if a.IsTrue() {
			return c.Or(cond, b)
		}
		if a.IsFalse() {
			return c.And(c.Not(cond), b)
		}
		if b.IsTrue() {
			return c.Or(c.Not(cond), a)
		}
		if b.IsFalse() {
			return c.And(cond, a)
		}
	}
	return c.mk(&Term{Op: "ite", Args: []*Term{cond, a, b}, S: a.S})
}

func (c *Ctx) Eq(a, b *Term) *Term {
	if a == b {
		return c.True()
	}
	if a.S != b.S {
		panic(fmt.Sprintf("Eq sort mismatch: %v %v (%s vs %s)", a.S, b.S, c.Show(a), c.Show(b)))
	}
	if a.IsConst() && b.IsConst() {
		return c.Bool(a.C.Cmp(b.C) == 0)
	}
	if a.S.IsBool() {
		if a.IsTrue() {
			return b
		}
		if b.IsTrue() {
			return a
		}
		if a.IsFalse() {
			return c.Not(b)
		}
		if b.IsFalse() {
			return c.Not(a)
		}
	}
	// ite(c, k1, k2) == k  with constants: simplify
	if a.Op == "ite" && b.IsConst() && a.Args[1].IsConst() && a.Args[2].IsConst() {
		e1 := a.Args[1].C.Cmp(b.C) == 0
		e2 := a.Args[2].C.Cmp(b.C) == 0
		switch {
		case e1 && e2:
			return c.True()
		case e1:
			return a.Args[0]
		case e2:
			return c.Not(a.Args[0])
		default:
			return c.False()
		}
	}
	if b.Op == "ite" && a.IsConst() {
		return c.Eq(b, a)
	}
	if a.id > b.id {
		a, b = b, a
	}
	return c.mk(&Term{Op: "=", Args: []*Term{a, b}, S: BoolS})
}

func (c *Ctx) Ne(a, b *Term) *Term { return c.Not(c.Eq(a, b)) }

// binary bit-vector / int arithmetic with folding
func (c *Ctx) bin(op string, a, b *Term, f func(x, y *big.Int, w int) *big.Int) *Term {
	if a.S != b.S {
		panic(fmt.Sprintf("%s sort mismatch %v %v: %s / %s", op, a.S, b.S, c.Show(a), c.Show(b)))
	}
	if a.IsConst() && b.IsConst() && f != nil {
		r := f(a.C, b.C, a.S.W)
		if r != nil {
			return c.NumConst(r, a.S)
		}
	}
	return c.mk(&Term{Op: op, Args: []*Term{a, b}, S: a.S})
}

func isZero(t *Term) bool { return t.IsConst() && t.C.Sign() == 0 }
func isOne(t *Term) bool  { return t.IsConst() && t.C.Cmp(big.NewInt(1)) == 0 }
func isAllOnes(t *Term) bool {
	return t.IsConst() && t.S.IsBV() && t.C.Cmp(mask(t.S.W)) == 0
}

func (c *Ctx) Add(a, b *Term) *Term {
	if isZero(a) {
		return b
	}
	if isZero(b) {
		return a
	}
	if a.S.IsInt() {
		// flatten constants: (x + k1) + k2
		if b.IsConst() && a.Op == "+" && len(a.Args) == 2 && a.Args[1].IsConst() {
			return c.Add(a.Args[0], c.IntConst(new(big.Int).Add(a.Args[1].C, b.C)))
		}
		if a.IsConst() && !b.IsConst() {
			a, b = b, a
		}
		return c.bin("+", a, b, func(x, y *big.Int, w int) *big.Int { return new(big.Int).Add(x, y) })
	}
	if a.IsConst() && !b.IsConst() {
		a, b = b, a
	}
	// (x + k1) + k2 -> x + (k1+k2)
	if b.IsConst() && a.Op == "bvadd" && a.Args[1].IsConst() {
		return c.Add(a.Args[0], c.BVConst(new(big.Int).Add(a.Args[1].C, b.C), a.S.W))
	}
	// (x - k1) + k2
	if b.IsConst() && a.Op == "bvsub" && a.Args[1].IsConst() {
		return c.Add(a.Args[0], c.BVConst(new(big.Int).Sub(b.C, a.Args[1].C), a.S.W))
	}
	return c.bin("bvadd", a, b, func(x, y *big.Int, w int) *big.Int { return norm(new(big.Int).Add(x, y), w) })
}

func (c *Ctx) Sub(a, b *Term) *Term {
	if isZero(b) {
		return a
	}
	if a == b {
		return c.NumConst(big.NewInt(0), a.S)
	}
	if a.S.IsInt() {
		if b.IsConst() {
			return c.Add(a, c.IntConst(new(big.Int).Neg(b.C)))
		}
		return c.bin("-", a, b, func(x, y *big.Int, w int) *big.Int { return new(big.Int).Sub(x, y) })
	}
	if b.IsConst() {
		return c.Add(a, c.BVConst(new(big.Int).Neg(b.C), a.S.W))
	}
	// (x + y) - x -> y ; (x + y) - y -> x
	if a.Op == "bvadd" {
		if a.Args[0] == b {
			return a.Args[1]
		}
		if a.Args[1] == b {
			return a.Args[0]
		}
	}
	return c.bin("bvsub", a, b, func(x, y *big.Int, w int) *big.Int { return norm(new(big.Int).Sub(x, y), w) })
}

func (c *Ctx) Mul(a, b *Term) *Term {
	if isZero(a) || isZero(b) {
		return c.NumConst(big.NewInt(0), a.S)
	}
	if isOne(a) {
		return b
	}
	if isOne(b) {
		return a
	}
	if a.S.IsInt() {
		return c.bin("*", a, b, func(x, y *big.Int, w int) *big.Int { return new(big.Int).Mul(x, y) })
	}
	return c.bin("bvmul", a, b, func(x, y *big.Int, w int) *big.Int { return norm(new(big.Int).Mul(x, y), w) })
}

func (c *Ctx) Neg(a *Term) *Term {
	return c.Sub(c.NumConst(big.NewInt(0), a.S), a)
}

// Int-only: Euclidean div/mod as in SMT-LIB.
func (c *Ctx) IDiv(a, b *Term) *Term {
	if a.IsConst() && b.IsConst() && b.C.Sign() != 0 {
		q, _ := new(big.Int).DivMod(a.C, b.C, new(big.Int))
		return c.IntConst(q)
	}
	return c.mk(&Term{Op: "div", Args: []*Term{a, b}, S: IntS})
}
func (c *Ctx) IMod(a, b *Term) *Term {
	if a.IsConst() && b.IsConst() && b.C.Sign() != 0 {
		_, m := new(big.Int).DivMod(a.C, b.C, new(big.Int))
		return c.IntConst(m)
	}
	return c.mk(&Term{Op: "mod", Args: []*Term{a, b}, S: IntS})
}

func (c *Ctx) UDiv(a, b *Term) *Term {
	return c.bin("bvudiv", a, b, func(x, y *big.Int, w int) *big.Int {
		if y.Sign() == 0 {
			return nil
		}
		return new(big.Int).Div(x, y)
	})
}
func (c *Ctx) URem(a, b *Term) *Term {
	return c.bin("bvurem", a, b, func(x, y *big.Int, w int) *big.Int {
		if y.Sign() == 0 {
			return nil
		}
		return new(big.Int).Mod(x, y)
	})
}
func (c *Ctx) SDiv(a, b *Term) *Term {
	return c.bin("bvsdiv", a, b, func(x, y *big.Int, w int) *big.Int {
		if y.Sign() == 0 {
			return nil
		}
		return norm(new(big.Int).Quo(toSigned(x, w), toSigned(y, w)), w)
	})
}
func (c *Ctx) SRem(a, b *Term) *Term {
	return c.bin("bvsrem", a, b, func(x, y *big.Int, w int) *big.Int {
		if y.Sign() == 0 {
			return nil
		}
		return norm(new(big.Int).Rem(toSigned(x, w), toSigned(y, w)), w)
	})
}

func (c *Ctx) BvAnd(a, b *Term) *Term {
	if isZero(a) || isZero(b) {
		return c.NumConst(big.NewInt(0), a.S)
	}
	if isAllOnes(a) {
		return b
	}
	if isAllOnes(b) {
		return a
	}
	if a == b {
		return a
	}
	// zero_extend(x) & mask where mask covers x fully
	if b.IsConst() && a.Op == "zero_extend" {
		iw := a.Args[0].S.W
		if new(big.Int).And(b.C, mask(iw)).Cmp(mask(iw)) == 0 {
			return a
		}
	}
	return c.bin("bvand", a, b, func(x, y *big.Int, w int) *big.Int { return new(big.Int).And(x, y) })
}
func (c *Ctx) BvOr(a, b *Term) *Term {
	if isZero(a) {
		return b
	}
	if isZero(b) {
		return a
	}
	if a == b {
		return a
	}
	return c.bin("bvor", a, b, func(x, y *big.Int, w int) *big.Int { return new(big.Int).Or(x, y) })
}
func (c *Ctx) BvXor(a, b *Term) *Term {
	if isZero(a) {
		return b
	}
	if isZero(b) {
		return a
	}
	if a == b {
		return c.NumConst(big.NewInt(0), a.S)
	}
	return c.bin("bvxor", a, b, func(x, y *big.Int, w int) *big.Int { return new(big.Int).Xor(x, y) })
}
func (c *Ctx) BvNot(a *Term) *Term {
	if a.IsConst() {
		return c.BVConst(new(big.Int).Xor(a.C, mask(a.S.W)), a.S.W)
	}
	return c.mk(&Term{Op: "bvnot", Args: []*Term{a}, S: a.S})
}

// Shl etc: both operands same width (caller adjusts); SMT semantics (shift >= w gives 0) match Go.
func (c *Ctx) Shl(a, b *Term) *Term {
	if isZero(b) {
		return a
	}
	return c.bin("bvshl", a, b, func(x, y *big.Int, w int) *big.Int {
		if y.Cmp(big.NewInt(int64(w))) >= 0 {
			return big.NewInt(0)
		}
		return norm(new(big.Int).Lsh(x, uint(y.Uint64())), w)
	})
}
func (c *Ctx) LShr(a, b *Term) *Term {
	if isZero(b) {
		return a
	}
	return c.bin("bvlshr", a, b, func(x, y *big.Int, w int) *big.Int {
		if y.Cmp(big.NewInt(int64(w))) >= 0 {
			return big.NewInt(0)
		}
		return new(big.Int).Rsh(x, uint(y.Uint64()))
	})
}
func (c *Ctx) AShr(a, b *Term) *Term {
	if isZero(b) {
		return a
	}
	return c.bin("bvashr", a, b, func(x, y *big.Int, w int) *big.Int {
		s := toSigned(x, w)
		sh := uint(w)
		if y.Cmp(big.NewInt(int64(w))) < 0 {
			sh = uint(y.Uint64())
		}
		return norm(new(big.Int).Rsh(s, sh), w)
	})
}

func (c *Ctx) cmp(op string, a, b *Term, f func(x, y *big.Int, w int) bool) *Term {
	if a.S != b.S {
		panic(fmt.Sprintf("%s sort mismatch %v %v: %s / %s", op, a.S, b.S, c.Show(a), c.Show(b)))
	}
	if a.IsConst() && b.IsConst() {
		return c.Bool(f(a.C, b.C, a.S.W))
	}
	return c.mk(&Term{Op: op, Args: []*Term{a, b}, S: BoolS})
}

func (c *Ctx) ULt(a, b *Term) *Term {
	if a == b || isZero(b) {
		return c.False()
	}
	return c.cmp("bvult", a, b, func(x, y *big.Int, w int) bool { return x.Cmp(y) < 0 })
}
func (c *Ctx) ULe(a, b *Term) *Term {
	if a == b || isZero(a) {
		return c.True()
	}
	return c.cmp("bvule", a, b, func(x, y *big.Int, w int) bool { return x.Cmp(y) <= 0 })
}
func (c *Ctx) SLt(a, b *Term) *Term {
	if a == b {
		return c.False()
	}
	return c.cmp("bvslt", a, b, func(x, y *big.Int, w int) bool { return toSigned(x, w).Cmp(toSigned(y, w)) < 0 })
}
func (c *Ctx) SLe(a, b *Term) *Term {
	if a == b {
		return c.True()
	}
	return c.cmp("bvsle", a, b, func(x, y *big.Int, w int) bool { return toSigned(x, w).Cmp(toSigned(y, w)) <= 0 })
}
func (c *Ctx) ILt(a, b *Term) *Term {
	if a == b {
		return c.False()
	}
	return c.cmp("<", a, b, func(x, y *big.Int, w int) bool { return x.Cmp(y) < 0 })
}
func (c *Ctx) ILe(a, b *Term) *Term {
	if a == b {
		return c.True()
	}
	return c.cmp("<=", a, b, func(x, y *big.Int, w int) bool { return x.Cmp(y) <= 0 })
}

// Lt/Le generic on sort + signedness.
func (c *Ctx) Lt(a, b *Term, signed bool) *Term {
	if a.S.IsInt() {
		return c.ILt(a, b)
	}
	if signed {
		return c.SLt(a, b)
	}
	return c.ULt(a, b)
}
func (c *Ctx) Le(a, b *Term, signed bool) *Term {
	if a.S.IsInt() {
		return c.ILe(a, b)
	}
	if signed {
		return c.SLe(a, b)
	}
	return c.ULe(a, b)
}

func (c *Ctx) Extract(hi, lo int, a *Term) *Term {
	if lo == 0 && hi == a.S.W-1 {
		return a
	}
	if a.IsConst() {
		v := new(big.Int).Rsh(a.C, uint(lo))
		return c.BVConst(v, hi-lo+1)
	}
	// extract of zero_extend within inner
	if (a.Op == "zero_extend" || a.Op == "sign_extend") && hi < a.Args[0].S.W {
		return c.Extract(hi, lo, a.Args[0])
	}
	if a.Op == "zero_extend" && lo >= a.Args[0].S.W {
		return c.BVu(0, hi-lo+1)
	}
	if a.Op == "concat" {
		lw := a.Args[1].S.W
		if hi < lw {
			return c.Extract(hi, lo, a.Args[1])
		}
		if lo >= lw {
			return c.Extract(hi-lw, lo-lw, a.Args[0])
		}
	}
	if a.Op == "extract" {
		return c.Extract(hi+a.P[1], lo+a.P[1], a.Args[0])
	}
	return c.mk(&Term{Op: "extract", Args: []*Term{a}, S: BV(hi - lo + 1), P: [2]int{hi, lo}})
}

func (c *Ctx) ZExt(a *Term, w int) *Term {
	if a.S.W == w {
		return a
	}
	if a.S.W > w {
		return c.Extract(w-1, 0, a)
	}
	if a.IsConst() {
		return c.BVConst(a.C, w)
	}
	if a.Op == "zero_extend" {
		return c.ZExt(a.Args[0], w)
	}
	return c.mk(&Term{Op: "zero_extend", Args: []*Term{a}, S: BV(w), P: [2]int{w - a.S.W, 0}})
}

func (c *Ctx) SExt(a *Term, w int) *Term {
	if a.S.W == w {
		return a
	}
	if a.S.W > w {
		return c.Extract(w-1, 0, a)
	}
	if a.IsConst() {
		return c.BVConst(toSigned(a.C, a.S.W), w)
	}
	if a.Op == "zero_extend" {
		return c.ZExt(a.Args[0], w)
	}
	return c.mk(&Term{Op: "sign_extend", Args: []*Term{a}, S: BV(w), P: [2]int{w - a.S.W, 0}})
}

func (c *Ctx) Concat(hi, lo *Term) *Term {
	if hi.IsConst() && lo.IsConst() {
		v := new(big.Int).Lsh(hi.C, uint(lo.S.W))
		v.Or(v, lo.C)
		return c.BVConst(v, hi.S.W+lo.S.W)
	}
	if isZero(hi) {
		return c.ZExt(lo, hi.S.W+lo.S.W)
	}
	return c.mk(&Term{Op: "concat", Args: []*Term{hi, lo}, S: BV(hi.S.W + lo.S.W)})
}

// Forall builds a quantified formula over bound variables (which must be Var terms).
func (c *Ctx) Forall(vars []*Term, body *Term) *Term {
	if body.IsConst() {
		return body
	}
	args := append(append([]*Term{}, vars...), body)
	return c.mk(&Term{Op: "forall", Args: args, S: BoolS, P: [2]int{len(vars), 0}})
}

// Subst replaces variables (by term identity) in t.
func (c *Ctx) Subst(t *Term, m map[*Term]*Term) *Term {
	return c.SubstMemo(t, m, map[*Term]*Term{})
}

// SubstMemo is Subst with a caller-provided memo table, so that several formulas sharing subterms are rewritten
// in one pass over the DAG.
func (c *Ctx) SubstMemo(t *Term, m map[*Term]*Term, memo map[*Term]*Term) *Term {
	var rec func(t *Term) *Term
	rec = func(t *Term) *Term {
		if r, ok := m[t]; ok {
			return r
		}
		if len(t.Args) == 0 {
			return t
		}
		if r, ok := memo[t]; ok {
			return r
		}
		changed := false
		na := make([]*Term, len(t.Args))
		for i, a := range t.Args {
			na[i] = rec(a)
			if na[i] != a {
				changed = true
			}
		}
		r := t
		if changed {
			r = c.rebuild(t, na)
		}
		memo[t] = r
		return r
	}
	return rec(t)
}

func (c *Ctx) rebuild(t *Term, a []*Term) *Term {
	switch t.Op {
	case "not":
		return c.Not(a[0])
	case "and":
		return c.And(a...)
	case "or":
		return c.Or(a...)
	case "ite":
		return c.Ite(a[0], a[1], a[2])
	case "=":
		return c.Eq(a[0], a[1])
	case "bvadd", "+":
		return c.Add(a[0], a[1])
	case "bvsub", "-":
		return c.Sub(a[0], a[1])
	case "bvmul", "*":
		return c.Mul(a[0], a[1])
	case "div":
		return c.IDiv(a[0], a[1])
	case "mod":
		return c.IMod(a[0], a[1])
	case "bvudiv":
		return c.UDiv(a[0], a[1])
	case "bvurem":
		return c.URem(a[0], a[1])
	case "bvsdiv":
		return c.SDiv(a[0], a[1])
	case "bvsrem":
		return c.SRem(a[0], a[1])
	case "bvand":
		return c.BvAnd(a[0], a[1])
	case "bvor":
		return c.BvOr(a[0], a[1])
	case "bvxor":
		return c.BvXor(a[0], a[1])
	case "bvnot":
		return c.BvNot(a[0])
	case "bvshl":
		return c.Shl(a[0], a[1])
	case "bvlshr":
		return c.LShr(a[0], a[1])
	case "bvashr":
		return c.AShr(a[0], a[1])
	case "bvult":
		return c.ULt(a[0], a[1])
	case "bvule":
		return c.ULe(a[0], a[1])
	case "bvslt":
		return c.SLt(a[0], a[1])
	case "bvsle":
		return c.SLe(a[0], a[1])
	case "<":
		return c.ILt(a[0], a[1])
	case "<=":
		return c.ILe(a[0], a[1])
	case "extract":
		return c.Extract(t.P[0], t.P[1], a[0])
	case "zero_extend":
		return c.ZExt(a[0], t.S.W)
	case "sign_extend":
		return c.SExt(a[0], t.S.W)
	case "concat":
		return c.Concat(a[0], a[1])
	case "app":
		return c.mk(&Term{Op: "app", Name: t.Name, Args: a, S: t.S})
	case "forall":
		return c.mk(&Term{Op: "forall", Args: a, S: BoolS, P: t.P})
	}
	panic("rebuild: " + t.Op)
}

// ---- printing ----

func symName(n string) string {
	for _, r := range n {
		if !((r >= 'a' && r <= 'z') || (r >= 'A' && r <= 'Z') || (r >= '0' && r <= '9') || r == '_' || r == '.' || r == '!') {
			return "|" + n + "|"
		}
	}
	return n
}

func constSMT(t *Term) string {
	switch t.S.K {
	case 0:
		if t.C.Sign() != 0 {
			return "true"
		}
		return "false"
	case 1:
		if t.S.W%4 == 0 {
			return fmt.Sprintf("#x%0*x", t.S.W/4, t.C)
		}
		return fmt.Sprintf("#b%0*b", t.S.W, t.C)
	}
	if t.C.Sign() < 0 {
		return fmt.Sprintf("(- %s)", new(big.Int).Neg(t.C).String())
	}
	return t.C.String()
}

// Show prints a term fully inline (for diagnostics; may be large).
func (c *Ctx) Show(t *Term) string {
	var sb strings.Builder
	c.show(&sb, t, nil, 0)
	s := sb.String()
	if len(s) > 400 {
		s = s[:400] + "..."
	}
	return s
}

func (c *Ctx) show(sb *strings.Builder, t *Term, names map[*Term]string, depth int) {
	if names != nil {
		if n, ok := names[t]; ok {
			sb.WriteString(n)
			return
		}
	}
	if sb.Len() > 100000 && names == nil {
		sb.WriteString("…")
		return
	}
	switch t.Op {
	case "const":
		sb.WriteString(constSMT(t))
	case "var":
		sb.WriteString(symName(t.Name))
	case "app":
		if len(t.Args) == 0 {
			sb.WriteString(symName(t.Name))
			return
		}
		sb.WriteString("(" + symName(t.Name))
		for _, a := range t.Args {
			sb.WriteByte(' ')
			c.show(sb, a, names, depth+1)
		}
		sb.WriteByte(')')
	case "extract":
		fmt.Fprintf(sb, "((_ extract %d %d) ", t.P[0], t.P[1])
		c.show(sb, t.Args[0], names, depth+1)
		sb.WriteByte(')')
	case "zero_extend", "sign_extend":
		fmt.Fprintf(sb, "((_ %s %d) ", t.Op, t.P[0])
		c.show(sb, t.Args[0], names, depth+1)
		sb.WriteByte(')')
	case "forall":
		n := t.P[0]
		sb.WriteString("(forall (")
		for i := 0; i < n; i++ {
			fmt.Fprintf(sb, "(%s %s)", symName(t.Args[i].Name), t.Args[i].S.SMT())
		}
		sb.WriteString(") ")
		c.show(sb, t.Args[n], names, depth+1)
		sb.WriteByte(')')
	default:
		sb.WriteString("(" + t.Op)
		for _, a := range t.Args {
			sb.WriteByte(' ')
			c.show(sb, a, names, depth+1)
		}
		sb.WriteByte(')')
	}
}

// Script renders a satisfiability query: assert all of `asserts`.
// Shared subterms are emitted as define-fun. Returns SMT-LIB text.
func (c *Ctx) Script(prelude string, asserts []*Term, getValues []*Term) string {
	// collect reachable terms, count refs
	refs := map[*Term]int{}
	var order []*Term
	bound := map[*Term]bool{}
	hasBound := map[*Term]bool{} // term mentions a bound var -> cannot be hoisted
	var visit func(t *Term)
	visit = func(t *Term) {
		refs[t]++
		if refs[t] > 1 {
			return
		}
		if t.Op == "forall" {
			for i := 0; i < t.P[0]; i++ {
				bound[t.Args[i]] = true
			}
		}
		for _, a := range t.Args {
			visit(a)
		}
		order = append(order, t)
	}
	for _, a := range asserts {
		visit(a)
	}
	for _, a := range getValues {
		visit(a)
	}
	for _, t := range order { // post-order: children first
		if bound[t] {
			hasBound[t] = true
			continue
		}
		for _, a := range t.Args {
			if hasBound[a] {
				hasBound[t] = true
			}
		}
	}
	var sb strings.Builder
	sb.WriteString("(set-option :produce-models true)\n(set-logic ALL)\n")
	sb.WriteString(prelude)
	// declarations for used symbols
	used := map[string]bool{}
	for _, t := range order {
		if (t.Op == "var" && !bound[t]) || t.Op == "app" {
			used[t.Name] = true
		}
	}
	var names []string
	for n := range used {
		names = append(names, n)
	}
	sort.Strings(names)
	for _, n := range names {
		if _, isSpec := c.SpecFns[n]; isSpec {
			continue
		}
		d := c.Decls[n]
		if d == nil {
			continue
		}
		var as []string
		for _, a := range d.Args {
			as = append(as, a.SMT())
		}
		fmt.Fprintf(&sb, "(declare-fun %s (%s) %s)\n", symName(n), strings.Join(as, " "), d.Ret.SMT())
	}
	for _, n := range names {
		if rg, ok := c.appRange[n]; ok && rg.lo != nil && rg.hi != nil {
			if d := c.Decls[n]; d != nil && len(d.Args) == 1 && d.Ret.IsInt() {
				fmt.Fprintf(&sb, "(assert (forall ((i!r %s)) (and (<= %s (%s i!r)) (<= (%s i!r) %s))))\n", d.Args[0].SMT(), constSMT(&Term{S: IntS, C: rg.lo}), symName(n), symName(n), constSMT(&Term{S: IntS, C: rg.hi}))
			}
		}
	}
	defNames := map[*Term]string{}
	for _, t := range order {
		if refs[t] > 1 && len(t.Args) > 0 && !hasBound[t] {
			var b strings.Builder
			c.show(&b, t, defNames, 0)
			n := fmt.Sprintf("t!%d", t.id)
			fmt.Fprintf(&sb, "(define-fun %s () %s %s)\n", n, t.S.SMT(), b.String())
			defNames[t] = n
		}
	}
	for _, a := range asserts {
		var b strings.Builder
		c.show(&b, a, defNames, 0)
		fmt.Fprintf(&sb, "(assert %s)\n", b.String())
	}
	sb.WriteString("(check-sat)\n")
	if len(getValues) > 0 {
		sb.WriteString("(get-value (")
		for _, v := range getValues {
			var b strings.Builder
			c.show(&b, v, defNames, 0)
			sb.WriteString(b.String())
			sb.WriteByte(' ')
		}
		sb.WriteString("))\n")
	}
	return sb.String()
}
