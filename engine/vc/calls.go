package vc

import (
	"unicode/utf8"
	"go/types"
	"math/big"
	"strings"

	"golang.org/x/tools/go/ssa"
)

const modulePath = "github.com/TheManticoreProject/Manticore"

// packages whose function bodies may be inlined (symbolically executed) when no contract/intrinsic exists
// declining: intrinsic models that may return nil to hand the call back to the generic treatment.
var declining = map[string]bool{}

var inlineStdlib = map[string]bool{
	"encoding/binary":                true,
	"crypto/subtle":                  true,
	"crypto/internal/fips140/subtle": true,
	"math/bits":                      true,
	"unicode/utf16":                  true,
	"unicode/utf8":                   false,
	"bytes":                          false,
	"slices":                         true,
	"errors":                         false,
}

func (e *Exec) call(st *State, fr *Frame, cc *ssa.CallCommon, in ssa.Instruction, rt types.Type) []callRes {
	args := make([]Val, 0, len(cc.Args)+1)
	if cc.IsInvoke() {
		rv := e.val(st, fr, cc.Value)
		iv, ok := rv.(*IfaceVal)
		if !ok {
			e.bail("invoke on %T", rv)
		}
		if iv.IsNil.IsTrue() {
			e.oblige(st, fr, in, "nil", e.C.False())
			st.Dead = true
			return nil
		}
		if !iv.IsNil.IsFalse() {
			// possibly nil
			e.oblige(st, fr, in, "nil", e.C.Not(iv.IsNil))
			if st.Dead {
				return nil
			}
		}
		if iv.Dyn == nil || iv.Opaque {
			return e.unknownInvoke(st, fr, cc, in, rt, iv)
		}
		fn := e.Prog.LookupMethod(iv.Dyn, cc.Method.Pkg(), cc.Method.Name())
		if fn == nil {
			e.bail("cannot resolve method %s on %s", cc.Method.Name(), iv.Dyn)
		}
		args = append(args, iv.V)
		for _, a := range cc.Args {
			args = append(args, e.val(st, fr, a))
		}
		return e.invokeFn(st, fr, fn, args, nil, in, rt)
	}
	for _, a := range cc.Args {
		args = append(args, e.val(st, fr, a))
	}
	switch v := cc.Value.(type) {
	case *ssa.Builtin:
		return e.builtin(st, fr, v, args, cc, in, rt)
	case *ssa.Function:
		return e.invokeFn(st, fr, v, args, nil, in, rt)
	}
	fv := e.val(st, fr, cc.Value)
	switch f := fv.(type) {
	case *FuncVal:
		if f.Fn == nil {
			if f.Builtin != nil {
				return e.builtin(st, fr, f.Builtin, args, cc, in, rt)
			}
			e.oblige(st, fr, in, "nil", e.C.False())
			st.Dead = true
			return nil
		}
		return e.invokeFn(st, fr, f.Fn, args, f.Bindings, in, rt)
	case *OpaqueVal:
		e.noteAbstract(st, "call of unknown function value "+f.Name)
		return []callRes{{st, e.freshResult(st, rt, "dyncall")}}
	}
	e.bail("call of %T", fv)
	return nil
}

func (e *Exec) unknownInvoke(st *State, fr *Frame, cc *ssa.CallCommon, in ssa.Instruction, rt types.Type, iv *IfaceVal) []callRes {
	name := cc.Method.Name()
	if name == "Error" || name == "String" {
		return []callRes{{st, e.freshString(st, "errstr", 0)}}
	}
	full := "invoke " + cc.Value.Type().String() + "." + name
	if h := e.W.invokeHook(e, st, fr, cc, in, rt, iv); h != nil {
		return h
	}
	if ct := e.W.ifaceContract(cc.Value.Type(), name); ct != nil && len(ct.Impls) > 0 {
		// modular call through the interface's contract (every implementation is verified against it)
		fn0 := e.W.FnByKey[ct.Impls[0]]
		args := []Val{iv}
		for _, a := range cc.Args {
			args = append(args, e.val(st, fr, a))
		}
		e.UsedContracts[ct.Key] = true
		return e.applyContract(st, fr, fn0, ct, args, in, rt)
	}
	// interface declared outside the module (io.Reader, cipher.BlockMode, hash.Hash, net.Conn ...): abstract call
	if nt, ok := cc.Value.Type().(*types.Named); ok && nt.Obj().Pkg() != nil && !strings.HasPrefix(nt.Obj().Pkg().Path(), modulePath) {
		var args []Val
		for _, a := range cc.Args {
			args = append(args, e.val(st, fr, a))
		}
		key := nt.Obj().Pkg().Path() + "." + nt.Obj().Name() + "." + name
		if rs, ok := e.cryptoInvoke(st, fr, iv, name, args, in, rt); ok {
			return rs
		}
		if h, ok := invokeIntrinsics[key]; ok {
			e.UsedIntrinsics[key] = true
			return h(e, st, fr, args, in, rt)
		}
		e.noteAbstract(st, "interface call "+key)
		e.havocArgs(st, args)
		if sig, ok := cc.Method.Type().(*types.Signature); ok {
			return []callRes{{st, e.freshResult(st, sig.Results(), "ret."+name)}}
		}
		return []callRes{{st, nil}}
	}
	e.bail("interface call on unknown dynamic type: %s", full)
	return nil
}

func (e *Exec) freshResult(st *State, rt types.Type, name string) Val {
	if rt == nil {
		return nil
	}
	if tup, ok := rt.(*types.Tuple); ok {
		if tup.Len() == 0 {
			return nil
		}
		if tup.Len() == 1 {
			return e.freshOfType(st, tup.At(0).Type(), e.C.FreshName(name))
		}
		tv := make(TupleVal, tup.Len())
		for i := range tv {
			tv[i] = e.freshOfType(st, tup.At(i).Type(), e.C.FreshName(name))
		}
		return tv
	}
	return e.freshOfType(st, rt, e.C.FreshName(name))
}

func (e *Exec) freshOfType(st *State, t types.Type, name string) Val {
	switch u := t.Underlying().(type) {
	case *types.Slice:
		if isScalarType(u.Elem()) {
			s := e.freshSliceObj(st, u.Elem(), name)
			e.metaAll[s.Obj].Growable = false
			return s
		}
		return e.freshSliceObj(st, u.Elem(), name)
	case *types.Pointer:
		if n, ok := u.Elem().(*types.Named); ok && n.Obj().Pkg() != nil && !strings.HasPrefix(n.Obj().Pkg().Path(), modulePath) {
			id := e.newObj(st, &OpaqueVal{T: u.Elem(), Name: name}, &ObjMeta{T: u.Elem(), Fresh: true, Name: name})
			return &PtrVal{Obj: id, T: u.Elem()}
		}
		e.bail("fresh value of pointer type %s from abstracted call", t)
	}
	return e.symVal(st, t, name, 0)
}

func pkgPathOf(fn *ssa.Function) string {
	if fn.Pkg != nil {
		return fn.Pkg.Pkg.Path()
	}
	if fn.Signature.Recv() != nil {
		t := fn.Signature.Recv().Type()
		if p, ok := t.(*types.Pointer); ok {
			t = p.Elem()
		}
		if n, ok := t.(*types.Named); ok && n.Obj().Pkg() != nil {
			return n.Obj().Pkg().Path()
		}
	}
	if o := fn.Object(); o != nil && o.Pkg() != nil {
		return o.Pkg().Path()
	}
	if fn.Origin() != nil && fn.Origin() != fn {
		return pkgPathOf(fn.Origin())
	}
	return ""
}

// expands: the contract of the function under verification asks for this callee's body (`expand` clause).
func (e *Exec) expands(fn *ssa.Function) bool {
	if e.RootCt == nil || len(e.RootCt.Expand) == 0 {
		return false
	}
	d := fnDisplay(fn)
	for _, x := range e.RootCt.Expand {
		if strings.HasSuffix(d, x) {
			return true
		}
	}
	return false
}

func (e *Exec) invokeFn(st *State, fr *Frame, fn *ssa.Function, args []Val, bindings []Val, in ssa.Instruction, rt types.Type) []callRes {
	name := fn.String()
	if fn.Origin() != nil {
		name = fn.Origin().String()
	}
	if fn.Synthetic == "package initializer" || (fn.Name() == "init" && fn.Signature.Recv() == nil && fn.Signature.Params().Len() == 0 && e.initRunning != nil && fn.Pkg != e.initRunning) {
		return []callRes{{st, nil}} // initialisers of imported packages are evaluated lazily, on first access to their globals
	}
	if e.RootCt != nil && e.RootCt.Models["md4"] {
		if h, ok := md4Model[name]; ok {
			if rs := h(e, st, fr, args, in, rt); rs != nil {
				return rs
			}
		}
	}
	if h, ok := intrinsics[name]; ok {
		if declining[name] {
			// a model that only covers some uses (e.g. bytes.Buffer as an append-only accumulator): when it
			// declines (nil), the call is treated like any other external call
			if rs := h(e, st, fr, args, in, rt); rs != nil {
				e.UsedIntrinsics[name] = true
				return rs
			}
		} else {
			e.UsedIntrinsics[name] = true
			return h(e, st, fr, args, in, rt)
		}
	}
	// synthetic wrappers (promoted methods, bound methods, thunks) are always expanded
	if fn.Synthetic == "" || strings.HasPrefix(fn.Synthetic, "instance of") {
		if ct := e.W.contractFor(fn); ct != nil && (fn != e.Root || fr.Depth > 0 || true) && !ct.Inline && (!e.expands(fn) || e.inStack(fr, fn)) {
			if fn == e.Root && fr.Depth == 0 {
				// direct recursion handled via contract too
			}
			e.UsedContracts[ct.Key] = true
			return e.applyContract(st, fr, fn, ct, args, in, rt)
		}
	}
	pp := pkgPathOf(fn)
	inModule := strings.HasPrefix(pp, modulePath)
	if fn.Blocks != nil && (fn.Synthetic != "" || inModule || inlineStdlib[pp] || fn.Parent() != nil || e.expands(fn)) {
		if fn.Synthetic == "" {
			e.Inlined[fnDisplay(fn)] = true
		}
		// recursion guard
		if e.inStack(fr, fn) {
			e.bail("recursive call to %s without contract", fn)
		}
		outs := e.execFuncIn(st, fr, fn, args, bindings)
		var rs []callRes
		for _, o := range outs {
			if o.Panic {
				continue
			}
			rs = append(rs, callRes{o.St, packResults(o.Results)})
		}
		return rs
	}
	// unknown external function
	e.noteAbstract(st, "call "+name)
	e.havocArgs(st, args)
	return []callRes{{st, e.freshResult(st, rt, "ret."+fn.Name())}}
}

func (e *Exec) havocArgs(st *State, args []Val) {
	// external calls may write through pointer/slice arguments: havoc scalar arrays reachable directly
	for _, a := range args {
		switch x := a.(type) {
		case *SliceVal:
			if x.Obj != 0 {
				if av := e.sliceBacking(st, x); av != nil && av.Scalar {
					nav := &ArrayVal{ElemT: av.ElemT, Scalar: true, Elem: av.Elem, C: e.arrBase(e.C.FreshName("ext.arr"), av.ElemT), Len: av.Len}
					st.Heap[x.Obj] = e.update(st, e.root(st, x.Obj), x.Path, func(Val) Val { return nav })
				}
			}
		}
	}
}

type stackKey struct{}

var callStacks = map[*Frame][]*ssa.Function{}

func (e *Exec) inStack(fr *Frame, fn *ssa.Function) bool {
	n := 0
	for _, f := range e.stack {
		if f == fn {
			n++
		}
	}
	if e.expands(fn) {
		// an expanded callee may recurse a few levels (e.g. a name decoder following one compression pointer);
		// deeper recursion goes through its contract again
		return n >= 3
	}
	return n >= 1
}

func (e *Exec) execFuncIn(st *State, fr *Frame, fn *ssa.Function, args []Val, bindings []Val) []Outcome {
	e.stack = append(e.stack, fn)
	defer func() { e.stack = e.stack[:len(e.stack)-1] }()
	return e.execFunc(st, fn, args, bindings, fr.Depth+1)
}

func packResults(rs []Val) Val {
	switch len(rs) {
	case 0:
		return nil
	case 1:
		return rs[0]
	}
	return TupleVal(rs)
}

// invokeIntrinsics: models for methods of stdlib interfaces (keyed pkg.Iface.Method; args exclude the receiver).
var invokeIntrinsics = map[string]intrinsic{
	// crypto/cipher.BlockMode.CryptBlocks(dst, src): panics unless len(src) is a multiple of the block size
	// and len(dst) >= len(src). Block size: 16 (AES) or 8 (DES) — we require a multiple of 16 only when the
	// caller established it; conservatively the obligation asks for a multiple of 8 and dst long enough.
	"crypto/cipher.BlockMode.CryptBlocks": func(e *Exec, st *State, fr *Frame, args []Val, in ssa.Instruction, rt types.Type) []callRes {
		dst, src := args[0].(*SliceVal), args[1].(*SliceVal)
		c := e.C
		if !e.IntMode {
			e.oblige(st, fr, in, "conv-panic", c.And(c.Eq(c.BvAnd(src.Len, e.idx(15)), e.idx(0)), e.leIdx(src.Len, dst.Len)))
		}
		if st.Dead {
			return nil
		}
		e.havocArgs(st, []Val{dst})
		return []callRes{{st, nil}}
	},
}

// ---- builtins ----

func (e *Exec) builtin(st *State, fr *Frame, b *ssa.Builtin, args []Val, cc *ssa.CallCommon, in ssa.Instruction, rt types.Type) []callRes {
	c := e.C
	switch b.Name() {
	case "len":
		return []callRes{{st, e.lenOf(st, args[0])}}
	case "cap":
		switch x := args[0].(type) {
		case *SliceVal:
			return []callRes{{st, x.Cap}}
		case *ArrayVal:
			return []callRes{{st, x.Len}}
		case *PtrVal:
			at := cc.Args[0].Type().Underlying().(*types.Pointer).Elem().Underlying().(*types.Array)
			return []callRes{{st, e.idx(at.Len())}}
		}
		e.bail("cap of %T", args[0])
	case "append":
		s := args[0].(*SliceVal)
		if len(args) == 1 {
			return []callRes{{st, s}}
		}
		return e.appendImpl(st, fr, in, s, args[1])
	case "copy":
		d := args[0].(*SliceVal)
		var srcC ArrC
		var srcOff, srcLen *Term
		switch s := args[1].(type) {
		case *SliceVal:
			if s.Obj == 0 {
				return []callRes{{st, e.idx(0)}}
			}
			av := e.sliceBacking(st, s)
			if !av.Scalar {
				return e.copyList(st, d, s)
			}
			srcC, srcOff, srcLen = av.C, s.Off, s.Len
		case *StringVal:
			srcC, srcOff, srcLen = s.C, s.Off, s.Len
		default:
			e.bail("copy from %T", args[1])
		}
		n := c.Ite(e.ltIdx(d.Len, srcLen), d.Len, srcLen)
		if d.Obj == 0 {
			return []callRes{{st, e.idx(0)}}
		}
		dav := e.sliceBacking(st, d)
		if !dav.Scalar {
			e.bail("copy into list from scalar")
		}
		if !(n.IsConst() && n.C.Sign() == 0) {
			nav := &ArrayVal{ElemT: dav.ElemT, Scalar: true, Elem: dav.Elem, C: &ArrSplice{Base: dav.C, DstOff: d.Off, Src: srcC, SrcOff: srcOff, N: n}, Len: dav.Len}
			e.storeBacking(st, d, nav)
		}
		return []callRes{{st, n}}
	case "delete":
		m := args[0].(*MapVal)
		e.mapDelete(st, m, args[1])
		return []callRes{{st, nil}}
	case "print", "println":
		return []callRes{{st, nil}}
	case "min", "max":
		a, b2 := args[0].(*Term), args[1].(*Term)
		signed := isSigned(cc.Args[0].Type())
		lt := c.Lt(a, b2, signed)
		if b.Name() == "min" {
			return []callRes{{st, c.Ite(lt, a, b2)}}
		}
		return []callRes{{st, c.Ite(lt, b2, a)}}
	case "recover":
		return []callRes{{st, &IfaceVal{IsNil: c.True()}}}
	case "clear":
		e.bail("clear builtin")
	}
	e.bail("builtin %s", b.Name())
	return nil
}

func (e *Exec) storeBacking(st *State, s *SliceVal, nav *ArrayVal) {
	if st.Record != nil {
		st.Record.note(s.Obj, s.Path)
	}
	e.frameCheck(st, &PtrVal{Obj: s.Obj, Path: s.Path})
	st.Heap[s.Obj] = e.update(st, e.root(st, s.Obj), s.Path, func(Val) Val { return nav })
}

func (e *Exec) lenOf(st *State, v Val) *Term {
	switch x := v.(type) {
	case *SliceVal:
		return x.Len
	case *StringVal:
		return x.Len
	case *ArrayVal:
		return x.Len
	case *PtrVal:
		if at, ok := x.T.Underlying().(*types.Array); ok {
			return e.idx(at.Len())
		}
	case *MapVal:
		if x.Obj == 0 {
			return e.idx(0)
		}
		ms := st.Maps[x.Obj]
		if !ms.Abstract {
			return e.idx(int64(len(ms.Keys)))
		}
		l := e.C.Fresh("maplen", e.idxSort())
		st.assume(e.lenFact(l))
		return l
	}
	e.bail("len of %T", v)
	return nil
}

func (e *Exec) copyList(st *State, d, s *SliceVal) []callRes {
	sav := e.sliceBacking(st, s)
	dav := e.sliceBacking(st, d)
	if !d.Len.IsConst() || !s.Len.IsConst() || !d.Off.IsConst() || !s.Off.IsConst() {
		e.bail("copy of non-scalar slices with symbolic bounds")
	}
	n := int(d.Len.C.Int64())
	if int(s.Len.C.Int64()) < n {
		n = int(s.Len.C.Int64())
	}
	nl := append([]Val{}, dav.List...)
	for i := 0; i < n; i++ {
		nl[int(d.Off.C.Int64())+i] = sav.List[int(s.Off.C.Int64())+i]
	}
	e.storeBacking(st, d, &ArrayVal{ElemT: dav.ElemT, Len: dav.Len, List: nl})
	return []callRes{{st, e.idx(int64(n))}}
}

func (e *Exec) appendImpl(st *State, fr *Frame, in ssa.Instruction, s *SliceVal, t Val) []callRes {
	c := e.C
	var tC ArrC
	var tOff, tLen *Term
	var tList []Val
	switch x := t.(type) {
	case *StringVal:
		tC, tOff, tLen = x.C, x.Off, x.Len
	case *SliceVal:
		if x.Obj == 0 {
			return []callRes{{st, s}}
		}
		av := e.sliceBacking(st, x)
		if av.Scalar {
			tC, tOff, tLen = av.C, x.Off, x.Len
		} else {
			tLen = x.Len
			if av.List != nil && x.Off.IsConst() && x.Len.IsConst() {
				o, l := int(x.Off.C.Int64()), int(x.Len.C.Int64())
				tList = av.List[o : o+l]
			}
		}
	default:
		e.bail("append of %T", t)
	}
	if tLen.IsConst() && tLen.C.Sign() == 0 {
		return []callRes{{st, s}}
	}
	newLen := c.Add(s.Len, tLen)
	elemT := s.ElemT
	if !isScalarType(elemT) {
		// list semantics: always a fresh copy (aliasing through append is not modelled)
		// conditional list (if-converted flag appends): append keeps the presence conditions
		if s.Obj != 0 && tList != nil {
			if av := e.sliceBacking(st, s); av.Conds != nil && s.Off.IsConst() && s.Off.C.Sign() == 0 {
				nl := append(append([]Val{}, av.List...), tList...)
				nc := append([]*Term{}, av.Conds...)
				for range tList {
					nc = append(nc, c.True())
				}
				ln := c.Add(av.Len, e.idx(int64(len(tList))))
				id := e.newObj(st, &ArrayVal{ElemT: elemT, Len: ln, List: nl, Conds: nc, Unordered: av.Unordered || st.InMapRange}, &ObjMeta{T: types.NewArray(elemT, 0), Fresh: true})
				return []callRes{{st, &SliceVal{Obj: id, Off: e.idx(0), Len: ln, Cap: ln, Nil: c.False(), ElemT: elemT}}}
			}
		}
		var base []Val
		symbolic := tList == nil
		if s.Obj != 0 {
			if av := e.sliceBacking(st, s); av.List == nil || !s.Off.IsConst() || !s.Len.IsConst() {
				symbolic = true
			}
		}
		if symbolic {
			// symbolic list: contents are not tracked, only the length
			r := e.symList(st, elemT, c.FreshName("appended"))
			st.assume(c.Eq(r.Len, newLen))
			st.assume(c.Not(r.Nil))
			e.metaAll[r.Obj].Param = false
			e.metaAll[r.Obj].Fresh = true
			return []callRes{{st, r}}
		}
		if s.Obj != 0 {
			av := e.sliceBacking(st, s)
			if !s.Off.IsConst() || !s.Len.IsConst() {
				e.bail("append to non-scalar slice with symbolic bounds")
			}
			o, l := int(s.Off.C.Int64()), int(s.Len.C.Int64())
			base = av.List[o : o+l]
		}
		if tList == nil {
			e.bail("append scalar data to non-scalar slice")
		}
		nl := append(append([]Val{}, base...), tList...)
		if len(nl) > 4096 {
			e.bail("list too long")
		}
		unord := st.InMapRange
		if s.Obj != 0 {
			unord = unord || e.sliceBacking(st, s).Unordered
		}
		id := e.newObj(st, &ArrayVal{ElemT: elemT, Len: e.idx(int64(len(nl))), List: nl, Unordered: unord}, &ObjMeta{T: types.NewArray(elemT, int64(len(nl))), Fresh: true})
		return []callRes{{st, &SliceVal{Obj: id, Off: e.idx(0), Len: e.idx(int64(len(nl))), Cap: e.idx(int64(len(nl))), Nil: c.False(), ElemT: elemT}}}
	}
	if tC == nil {
		e.bail("append list to scalar slice")
	}
	es := e.elemSort(elemT)
	realloc := func(st *State) callRes {
		var cont ArrC = &ArrFill{Val: zeroOf(c, es)}
		if s.Obj != 0 && !(s.Len.IsConst() && s.Len.C.Sign() == 0) {
			av := e.sliceBacking(st, s)
			if s.Off.IsConst() && s.Off.C.Sign() == 0 {
				cont = av.C
			} else {
				cont = &ArrSplice{Base: cont, DstOff: e.idx(0), Src: av.C, SrcOff: s.Off, N: s.Len}
			}
		}
		cont = e.spliceOrStore(cont, s.Len, tC, tOff, tLen)
		nav := &ArrayVal{ElemT: elemT, Scalar: true, Elem: es, C: cont, Len: newLen}
		id := e.newObj(st, nav, &ObjMeta{T: types.NewArray(elemT, 0), Fresh: true, Growable: true})
		return callRes{st, &SliceVal{Obj: id, Off: e.idx(0), Len: newLen, Cap: newLen, Nil: c.False(), ElemT: elemT}}
	}
	inplace := func(st *State, growable bool) callRes {
		av := e.sliceBacking(st, s)
		end := c.Add(s.Off, s.Len)
		cont := e.spliceOrStore(av.C, end, tC, tOff, tLen)
		nav := &ArrayVal{ElemT: elemT, Scalar: true, Elem: es, C: cont, Len: av.Len}
		capv := s.Cap
		if growable {
			nav.Len = c.Add(av.Len, tLen)
			capv = newLen
		}
		e.storeBacking(st, s, nav)
		return callRes{st, &SliceVal{Obj: s.Obj, Path: s.Path, Off: s.Off, Len: newLen, Cap: capv, Nil: c.False(), ElemT: elemT}}
	}
	if s.Obj == 0 || (s.Cap.IsConst() && s.Cap.C.Sign() == 0) {
		return []callRes{realloc(st)}
	}
	m := e.meta(s.Obj)
	if m != nil && m.Growable && len(s.Path) == 0 {
		av := e.sliceBacking(st, s)
		if c.Add(s.Off, s.Len) == av.Len {
			return []callRes{inplace(st, true)}
		}
	}
	fits := e.leIdx(newLen, s.Cap)
	if m != nil && m.Growable {
		// capacity of a reallocated array is implementation-defined: nondeterministic
		fits = c.Fresh("append.fits", BoolS)
	}
	if fits.IsTrue() {
		return []callRes{inplace(st, false)}
	}
	if fits.IsFalse() {
		return []callRes{realloc(st)}
	}
	st2 := st.clone()
	st.assume(fits)
	st2.assume(c.Not(fits))
	var rs []callRes
	if !st.Dead {
		rs = append(rs, inplace(st, false))
	}
	if !st2.Dead {
		rs = append(rs, realloc(st2))
	}
	return rs
}

func zeroOf(c *Ctx, s Sort) *Term {
	if s.IsBool() {
		return c.False()
	}
	return c.NumConst(big.NewInt(0), s)
}

// spliceOrStore writes src[srcOff:srcOff+n] at dst offset; constant small n become stores.
func (e *Exec) spliceOrStore(base ArrC, dstOff *Term, src ArrC, srcOff, n *Term) ArrC {
	if n.IsConst() && n.C.IsInt64() && n.C.Int64() <= 64 {
		k := n.C.Int64()
		r := base
		for i := int64(0); i < k; i++ {
			r = e.arrStore(r, e.C.Add(dstOff, e.idx(i)), e.sel(src, e.C.Add(srcOff, e.idx(i))))
		}
		return r
	}
	return &ArrSplice{Base: base, DstOff: dstOff, Src: src, SrcOff: srcOff, N: n}
}

// ---- maps ----

func (e *Exec) constKey(v Val) (string, bool) {
	switch k := v.(type) {
	case *Term:
		if k.IsConst() {
			return "t:" + k.C.String(), true
		}
	case *StringVal:
		if k.Tag != nil && len(k.Tag.Segs) == 1 && k.Tag.Segs[0].Kind == "lit" {
			return "s:" + k.Tag.Segs[0].Lit, true
		}
		if k.Len.IsConst() && k.Len.C.Sign() == 0 {
			return "s:", true
		}
	}
	return "", false
}

func (e *Exec) mapUpdate(st *State, fr *Frame, in *ssa.MapUpdate) {
	m := e.val(st, fr, in.Map).(*MapVal)
	if m.Obj == 0 {
		e.oblige(st, fr, in, "mapnil", e.C.False())
		st.Dead = true
		return
	}
	k := e.val(st, fr, in.Key)
	v := e.val(st, fr, in.Value)
	if st.Record != nil {
		st.Record.Objs[m.Obj] = true
	}
	ms := st.Maps[m.Obj]
	ns := &MapState{KeyT: ms.KeyT, ValT: ms.ValT, Abstract: ms.Abstract, Name: ms.Name, Keys: ms.Keys[:len(ms.Keys):len(ms.Keys)], Vals: ms.Vals[:len(ms.Vals):len(ms.Vals)]}
	ck, isConst := e.constKey(k)
	if !isConst {
		if h := e.W.mapHook; h != nil && h(e, st, fr, in, m, k, v) {
			return
		}
		ns.Abstract = true
		ns.Keys = append(ns.Keys, k)
		ns.Vals = append(ns.Vals, v)
		st.Maps[m.Obj] = ns
		return
	}
	for i, ok := range ns.Keys {
		if s, c := e.constKey(ok); c && s == ck {
			ns.Vals = append([]Val{}, ns.Vals...)
			ns.Vals[i] = v
			st.Maps[m.Obj] = ns
			return
		}
	}
	ns.Keys = append(ns.Keys, k)
	ns.Vals = append(ns.Vals, v)
	st.Maps[m.Obj] = ns
}

func (e *Exec) mapDelete(st *State, m *MapVal, k Val) {
	if m.Obj == 0 {
		return
	}
	ms := st.Maps[m.Obj]
	ck, isConst := e.constKey(k)
	if st.Record != nil {
		st.Record.Objs[m.Obj] = true
	}
	if !isConst || ms.Abstract {
		ns := *ms
		ns.Abstract = true
		st.Maps[m.Obj] = &ns
		return
	}
	ns := &MapState{KeyT: ms.KeyT, ValT: ms.ValT, Name: ms.Name}
	for i, ok := range ms.Keys {
		if s, c := e.constKey(ok); c && s == ck {
			continue
		}
		ns.Keys = append(ns.Keys, ms.Keys[i])
		ns.Vals = append(ns.Vals, ms.Vals[i])
	}
	st.Maps[m.Obj] = ns
}

func (e *Exec) lookup(st *State, fr *Frame, in *ssa.Lookup) []stfr {
	x := e.val(st, fr, in.X)
	c := e.C
	switch a := x.(type) {
	case *StringVal:
		idx := e.toIdx(e.val(st, fr, in.Index).(*Term), in.Index.Type())
		e.oblige(st, fr, in, "idx", e.inRange(idx, a.Len))
		if st.Dead {
			return nil
		}
		fr.Env[in] = e.sel(a.C, c.Add(a.Off, idx))
		return nil
	case *MapVal:
		k := e.val(st, fr, in.Index)
		vt := in.X.Type().Underlying().(*types.Map).Elem()
		set := func(v Val, ok *Term) {
			if in.CommaOk {
				fr.Env[in] = TupleVal{v, ok}
			} else {
				fr.Env[in] = v
			}
		}
		if a.Obj == 0 {
			set(e.zeroVal(st, vt), c.False())
			return nil
		}
		ms := st.Maps[a.Obj]
		ck, isConst := e.constKey(k)
		if isConst && !ms.Abstract {
			for i, ok := range ms.Keys {
				if s, cc := e.constKey(ok); cc && s == ck {
					set(ms.Vals[i], c.True())
					return nil
				}
			}
			set(e.zeroVal(st, vt), c.False())
			return nil
		}
		if !ms.Abstract && len(ms.Keys) <= 96 {
			if kt, ok := k.(*Term); ok && isScalarType(vt) {
				// ite chain over concrete entries
				var res *Term = e.zeroVal(st, vt).(*Term)
				okT := c.False()
				for i := len(ms.Keys) - 1; i >= 0; i-- {
					eq := c.Eq(kt, ms.Keys[i].(*Term))
					res = c.Ite(eq, ms.Vals[i].(*Term), res)
					okT = c.Or(eq, okT)
				}
				set(res, okT)
				return nil
			}
		}
		if !ms.Abstract && ms.Name != "" {
			if kt, ok := k.(*Term); ok {
				// large concrete table, symbolic key: membership is an uninterpreted predicate of the key
				// (tied to the table by name); the value is unconstrained except for nil-ness.
				okT := c.App("inmap_"+ms.Name, BoolS, kt)
				allNonNil := true
				for _, v := range ms.Vals {
					if iv, isI := v.(*IfaceVal); isI && !iv.IsNil.IsFalse() {
						allNonNil = false
					}
				}
				val := e.freshOfType(st, vt, c.FreshName("tableval"))
				if iv, isI := val.(*IfaceVal); isI {
					if allNonNil {
						iv.IsNil = c.Not(okT)
					}
				}
				if sv, isS := val.(*StringVal); isS {
					st.assume(c.Implies(c.Not(okT), c.Eq(sv.Len, e.idx(0))))
				}
				e.UsedIntrinsics["lookup in package-level table "+ms.Name+" with symbolic key: membership uninterpreted, value unconstrained"] = true
				set(val, okT)
				return nil
			}
		}
		if h := e.W.lookupHook; h != nil {
			if v, ok, done := h(e, st, fr, in, a, k); done {
				set(v, ok)
				return nil
			}
		}
		e.noteAbstract(st, "map lookup with symbolic key on "+ms.Name)
		okT := c.Fresh("mapok", BoolS)
		set(e.freshOfType(st, vt, c.FreshName("mapval")), okT)
		return nil
	}
	e.bail("lookup on %T", x)
	return nil
}

func (e *Exec) next(st *State, fr *Frame, in *ssa.Next) []stfr {
	it := e.val(st, fr, in.Iter).(*IterVal)
	c := e.C
	if it.Kind == "string" {
		s := it.Str
		if it.Pos.IsConst() && s.Len.IsConst() && s.Len.C.IsInt64() && s.Len.C.Int64() <= 256 {
			pos, n := int(it.Pos.C.Int64()), int(s.Len.C.Int64())
			if pos >= n {
				fr.Env[in] = TupleVal{c.False(), it.Pos, zeroOf(c, e.sortOf(types.Typ[types.Int32]))}
				return nil
			}
			if cs, isC := concreteString(s); isC {
				// a constant string is decoded exactly
				r, w := utf8.DecodeRuneInString(cs[pos:])
				fr.Env[in] = TupleVal{c.True(), it.Pos, c.NumConst(big.NewInt(int64(r)), e.sortOf(types.Typ[types.Int32]))}
				fr.Env[in.Iter] = &IterVal{Kind: "string", Str: s, Pos: e.idx(int64(pos + w))}
				return nil
			}
			if it.Ascii == nil && !it.NoAscii {
				if bs, ok := e.asciiBytes(st, s); ok {
					it.Ascii = bs
				} else {
					it.NoAscii = true
				}
			}
			if it.Ascii != nil {
				r := it.Ascii[pos]
				if !e.IntMode {
					r = c.ZExt(r, 32)
				}
				fr.Env[in] = TupleVal{c.True(), it.Pos, r}
				fr.Env[in.Iter] = &IterVal{Kind: "string", Str: s, Pos: e.idx(int64(pos + 1)), Ascii: it.Ascii}
				return nil
			}
		}
		ok := e.ltIdx(it.Pos, s.Len)
		w := c.Fresh("runew", e.idxSort())
		st.assume(c.And(e.leIdx(e.idx(1), w), e.leIdx(w, e.idx(4))))
		st.assume(c.Implies(ok, e.leIdx(c.Add(it.Pos, w), s.Len)))
		r := c.Fresh("rune", e.sortOf(types.Typ[types.Int32]))
		st.assume(e.rangeFact(r, types.Typ[types.Int32]))
		fr.Env[in] = TupleVal{ok, it.Pos, r}
		fr.Env[in.Iter] = &IterVal{Kind: "string", Str: s, Pos: c.Add(it.Pos, w), NoAscii: it.NoAscii}
		e.noteAbstract(st, "utf-8 decoding in range over string")
		return nil
	}
	ms := st.Maps[it.Map]
	if ms == nil {
		fr.Env[in] = TupleVal{c.False(), nil, nil}
		return nil
	}
	if ms.Abstract {
		e.bail("range over abstract map %s", ms.Name)
	}
	st.InMapRange = true
	if it.Index < len(ms.Keys) {
		fr.Env[in] = TupleVal{c.True(), ms.Keys[it.Index], ms.Vals[it.Index]}
		fr.Env[in.Iter] = &IterVal{Kind: "map", Map: it.Map, Index: it.Index + 1}
	} else {
		mt := in.Iter.(*ssa.Range).X.Type().Underlying().(*types.Map)
		fr.Env[in] = TupleVal{c.False(), e.zeroVal(st, mt.Key()), e.zeroVal(st, mt.Elem())}
	}
	return nil
}

// ---- defers ----

func (e *Exec) runDefers(st *State, fr *Frame) []stfr {
	cur := []stfr{{st, fr}}
	for len(fr.Defers) > 0 {
		d := fr.Defers[len(fr.Defers)-1]
		env := fr.DeferEnv[len(fr.DeferEnv)-1]
		fr.Defers = fr.Defers[:len(fr.Defers)-1]
		fr.DeferEnv = fr.DeferEnv[:len(fr.DeferEnv)-1]
		var next []stfr
		for _, sf := range cur {
			tf := &Frame{Fn: sf.fr.Fn, Env: env, Depth: sf.fr.Depth}
			rs := e.call(sf.st, tf, &d.Call, d, nil)
			for k, r := range rs {
				f2 := sf.fr
				if k > 0 {
					f2 = sf.fr.clone()
				}
				next = append(next, stfr{r.st, f2})
			}
		}
		cur = next
		for _, sf := range cur {
			sf.fr.Defers = fr.Defers
			sf.fr.DeferEnv = fr.DeferEnv
		}
	}
	return cur
}

// constScalarSlice: a fresh slice with the given constant elements.
func (e *Exec) constScalarSlice(st *State, elem types.Type, vals []int64, name string) *SliceVal {
	es := e.elemSort(elem)
	ts := make([]*Term, len(vals))
	for i, v := range vals {
		ts[i] = e.C.NumConst(big.NewInt(v), es)
	}
	n := e.idx(int64(len(vals)))
	av := &ArrayVal{ElemT: elem, Scalar: true, Elem: es, C: &ArrLit{Vals: ts, Rest: &ArrFill{Val: e.C.NumConst(big.NewInt(0), es)}}, Len: n}
	id := e.newObj(st, av, &ObjMeta{T: types.NewArray(elem, int64(len(vals))), Fresh: true, Name: name})
	return &SliceVal{Obj: id, Off: e.idx(0), Len: n, Cap: n, Nil: e.C.False(), ElemT: elem}
}

// concreteScalarSlice: the constant elements of a slice whose length and contents are all constants.
func (e *Exec) concreteScalarSlice(st *State, s *SliceVal) ([]int64, bool) {
	if s.Obj == 0 {
		return nil, true
	}
	if !s.Len.IsConst() || !s.Off.IsConst() || !s.Len.C.IsInt64() || s.Len.C.Int64() > 1<<16 {
		return nil, false
	}
	av := e.sliceBacking(st, s)
	if !av.Scalar {
		return nil, false
	}
	n := int(s.Len.C.Int64())
	out := make([]int64, n)
	for i := 0; i < n; i++ {
		t := e.sel(av.C, e.C.Add(s.Off, e.idx(int64(i))))
		if !t.IsConst() {
			return nil, false
		}
		out[i] = t.SInt().Int64()
	}
	return out, true
}

func (e *Exec) stringToRunes(st *State, fr *Frame, in ssa.Instruction, s *StringVal, to types.Type) Val {
	if cs, ok := concreteString(s); ok {
		// a constant string is decoded exactly (Go semantics: invalid UTF-8 yields U+FFFD per byte)
		var vals []int64
		for _, r := range cs {
			vals = append(vals, int64(r))
		}
		return e.constScalarSlice(st, types.Typ[types.Int32], vals, "runes")
	}
	// a string of concrete length whose bytes are all provably below 0x80 is ASCII: one rune per byte
	if bs, ok := e.asciiBytes(st, s); ok {
		es := e.elemSort(types.Typ[types.Int32])
		vals := make([]*Term, len(bs))
		for i, b := range bs {
			if e.IntMode {
				vals[i] = b
			} else {
				vals[i] = e.C.ZExt(b, 32)
			}
		}
		r := e.constScalarSlice(st, types.Typ[types.Int32], make([]int64, len(bs)), "runes")
		if len(bs) > 0 {
			av := e.sliceBacking(st, r)
			nav := *av
			nav.C = &ArrLit{Vals: vals, Rest: &ArrFill{Val: e.C.NumConst(big.NewInt(0), es)}}
			st.Heap[r.Obj] = &nav
		}
		return r
	}
	// []rune(s): uninterpreted decoding; length <= len(s)
	e.UsedIntrinsics["[]rune(string) (uninterpreted utf-8 decoding, len <= len(s))"] = true
	sl := e.freshSliceObj(st, types.Typ[types.Int32], "runes")
	e.metaAll[sl.Obj].Growable = false
	st.assume(e.leIdx(sl.Len, s.Len))
	st.assume(e.C.Eq(sl.Cap, sl.Len))
	st.assume(e.C.Not(sl.Nil))
	return sl
}

// asciiBytes: the bytes of a string of concrete length (at most 256) when every one is provably < 0x80 on this path.
func (e *Exec) asciiBytes(st *State, s *StringVal) ([]*Term, bool) {
	if !s.Len.IsConst() || !s.Len.C.IsInt64() || s.Len.C.Int64() > 256 {
		return nil, false
	}
	n := int(s.Len.C.Int64())
	bs := make([]*Term, n)
	goal := e.C.True()
	for i := range bs {
		bs[i] = e.sel(s.C, e.C.Add(s.Off, e.idx(int64(i))))
		if e.IntMode {
			goal = e.C.And(goal, e.C.ILt(bs[i], e.C.Inti(0x80)))
		} else {
			goal = e.C.And(goal, e.C.ULt(bs[i], e.C.BVu(0x80, 8)))
		}
	}
	if goal.IsTrue() {
		return bs, true
	}
	if goal.IsFalse() || st.Record != nil && false {
		return nil, false
	}
	if !e.quickValid(st, goal) {
		return nil, false
	}
	return bs, true
}

func (e *Exec) runesToString(st *State, fr *Frame, in ssa.Instruction, s *SliceVal) Val {
	// code points of concrete count, all provably in [0, 0x80): one byte each
	if s.Len.IsConst() && s.Len.C.IsInt64() && s.Len.C.Int64() <= 256 && s.Off.IsConst() {
		n := int(s.Len.C.Int64())
		if n == 0 {
			return e.strConst("")
		}
		if s.Obj != 0 {
			av := e.sliceBacking(st, s)
			rs := make([]*Term, n)
			goal := e.C.True()
			allConst := true
			for i := range rs {
				rs[i] = e.sel(av.C, e.C.Add(s.Off, e.idx(int64(i))))
				allConst = allConst && rs[i].IsConst()
				if e.IntMode {
					goal = e.C.And(goal, e.C.ILe(e.C.Inti(0), rs[i]), e.C.ILt(rs[i], e.C.Inti(0x80)))
				} else {
					goal = e.C.And(goal, e.C.ULt(rs[i], e.C.BVu(0x80, 32)))
				}
			}
			if allConst {
				r := make([]rune, n)
				for i, t := range rs {
					r[i] = rune(t.SInt().Int64())
				}
				return e.strConst(string(r))
			}
			if goal.IsTrue() || (!goal.IsFalse() && e.quickValid(st, goal)) {
				vals := make([]*Term, n)
				for i, r := range rs {
					if e.IntMode {
						vals[i] = r
					} else {
						vals[i] = e.C.Extract(7, 0, r)
					}
				}
				return &StringVal{C: &ArrLit{Vals: vals, Rest: &ArrFill{Val: e.C.NumConst(big.NewInt(0), e.elemSort(types.Typ[types.Uint8]))}}, Off: e.idx(0), Len: e.idx(int64(n))}
			}
		}
	}
	e.UsedIntrinsics["string([]rune) (uninterpreted utf-8 encoding, len <= 4*len(r))"] = true
	r := e.freshString(st, "runestr", 0)
	st.assume(e.leIdx(r.Len, e.C.Mul(s.Len, e.idx(4))))
	return r
}
