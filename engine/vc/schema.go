package vc

import (
	"go/types"
	"strings"

	"golang.org/x/tools/go/ssa"
)

func FnDisplay(fn *ssa.Function) string { return fnDisplay(fn) }

// DecoderSchema returns the default contract for decoder-shaped methods of the module:
//   Unmarshal([]byte) (int, error):  ensures err == nil ==> 0 <= result0 <= len(data)
// It is applied at call sites (modular reasoning) and checked on the method itself by the C07 sweep.
func DecoderSchema(w *World) func(fn *ssa.Function) *Contract {
	cache := map[*ssa.Function]*Contract{}
	return func(fn *ssa.Function) *Contract {
		if c, ok := cache[fn]; ok {
			return c
		}
		var ct *Contract
		defer func() { cache[fn] = ct }()
		pp := pkgPathOf(fn)
		if !strings.HasPrefix(pp, modulePath) || fn.Signature.Recv() == nil {
			return nil
		}
		sig := fn.Signature
		if fn.Name() == "Unmarshal" && sig.Params().Len() == 1 && sig.Results().Len() == 2 && isByteSlice(sig.Params().At(0).Type()) &&
			isIntType(sig.Results().At(0).Type()) && sig.Results().At(1).Type().String() == "error" {
			pn := "arg1"
			if len(fn.Params) == 2 {
				pn = paramName(fn.Params[1], 1)
			}
			ct = &Contract{Key: fn.String(), PkgPath: pp, Func: fn.Name(), Mode: "bv", Schema: "decoder Unmarshal([]byte)(int,error)", Bounds: map[string]int{}, Ifaces: map[string]string{}, Props: map[string]bool{"C07": true}}
			x, err := parseExpr("implies(err == nil, 0 <= result0 && result0 <= len("+pn+"))", "schema")
			if err != nil {
				panic(err)
			}
			ct.Ensures = []*Clause{{Props: []string{"C07"}, Label: "consumed-in-bounds", Text: "err == nil ==> 0 <= n <= len(input)", Expr: x}}
		}
		if ct == nil && (fn.Name() == "FromBytes" || fn.Name() == "FromRawBytes") && sig.Params().Len() >= 1 && isByteSlice(sig.Params().At(0).Type()) {
			// decoder without consumed-length result: frame = receiver, nothing promised about the result
			ct = &Contract{Key: fn.String(), PkgPath: pp, Func: fn.Name(), Mode: "bv", Schema: "decoder FromBytes([]byte, ...): no panic, writes only its receiver", Bounds: map[string]int{}, Ifaces: map[string]string{}, Props: map[string]bool{"C07": true}}
		}
		return ct
	}
}

// InputAllocBudget: 64*sum(len(byte/string inputs)) + 2^20 bytes.
func InputAllocBudget(e *Exec, st *State) *Term {
	if e.Replay == nil {
		return nil
	}
	total := e.idx(0)
	for _, a := range e.Replay.Args {
		switch x := a.(type) {
		case *SliceVal:
			total = e.C.Add(total, x.Len)
		case *StringVal:
			total = e.C.Add(total, x.Len)
		}
	}
	return e.C.Add(e.C.Mul(total, e.idx(64)), e.idx(1<<20))
}

var _ = types.Typ
