package vc

import (
	"encoding/hex"
	"strconv"
	"fmt"
	"go/types"
	"math/big"
	"sort"
	"strings"
	"unicode/utf16"

	"golang.org/x/tools/go/ssa"
)

type intrinsic func(e *Exec, st *State, fr *Frame, args []Val, in ssa.Instruction, rt types.Type) []callRes

var intrinsics map[string]intrinsic

func init() {
	intrinsics = map[string]intrinsic{
		"fmt.Errorf":   intrErr,
		"errors.New":   intrErr,
		"fmt.Sprintf":  intrSprintf,
		"fmt.Sprint":   intrOpaqueString,
		"fmt.Sprintln": intrOpaqueString,
		"fmt.Printf":   intrNoop,
		"fmt.Println":  intrNoop,
		"fmt.Print":    intrNoop,
		"fmt.Fprintf":  intrNoop,
		"fmt.Fprintln": intrNoop,
		"log.Printf":   intrNoop,
		"log.Println":  intrNoop,

		"strconv.ParseInt":  intrParseInt,
		"strconv.ParseUint": intrParseUint,
		"strconv.Atoi":      intrAtoi,
		"strconv.Itoa":      intrItoa,

		"time.Unix":            intrTimeUnix,
		"(time.Time).Unix":     intrTimeGetUnix,
		"(time.Time).UnixNano": intrTimeUnixNano,
		"(time.Time).UTC": func(e *Exec, st *State, fr *Frame, a []Val, in ssa.Instruction, rt types.Type) []callRes {
			return []callRes{{st, a[0]}}
		},
		"(time.Time).Nanosecond":  intrTimeNanosecond,
		"time.Now":                intrTimeNow,
		"(time.Time).Format":      intrOpaqueString,
		"(time.Time).String":      intrOpaqueString,
		"(time.Time).Add":         intrTimeAdd,
		"(time.Time).After":       intrTimeAfter,
		"(time.Time).Before":      intrTimeBefore,
		"(time.Time).IsZero":      intrTimeIsZero,
		"(time.Time).Sub":         intrTimeSub,
		"(time.Duration).Seconds": intrOpaqueFloat,
		"time.Since":              intrDurationFresh,

		"bytes.Equal":                 intrBytesEqual,
		"strings.ToUpper":             intrStrMapSameLen("toupper"),
		"strings.ToLower":             intrStrMapSameLen("tolower"),
		"strings.HasPrefix":           intrHasPrefix,
		"strings.HasSuffix":           intrHasSuffix,
		"strings.TrimPrefix":          intrTrimPrefix,
		"strings.TrimSuffix":          intrTrimSuffix,
		"strings.TrimSpace":           intrTrimSpace,
		"strings.Contains":            intrContains,
		"strings.EqualFold":           intrFreshBool,
		"strings.Repeat":              intrRepeat,
		"encoding/hex.EncodeToString": intrHexEncode,
		"encoding/hex.DecodeString":   intrHexDecode,

		"(*sync.Mutex).Lock":      intrLock(2),
		"(*sync.Mutex).Unlock":    intrUnlock(2),
		"(*sync.RWMutex).Lock":    intrLock(2),
		"(*sync.RWMutex).Unlock":  intrUnlock(2),
		"(*sync.RWMutex).RLock":   intrLock(1),
		"(*sync.RWMutex).RUnlock": intrUnlock(1),
	}
}

func intrNoop(e *Exec, st *State, fr *Frame, args []Val, in ssa.Instruction, rt types.Type) []callRes {
	if rt != nil {
		if tup, ok := rt.(*types.Tuple); ok && tup.Len() > 0 {
			return []callRes{{st, e.freshResult(st, rt, "io")}}
		}
	}
	return []callRes{{st, nil}}
}

var errType types.Type

func (e *Exec) newError(st *State) *IfaceVal {
	return &IfaceVal{Opaque: true, IsNil: e.C.False(), ID: e.C.Fresh("errid", BV(64))}
}

func intrErr(e *Exec, st *State, fr *Frame, args []Val, in ssa.Instruction, rt types.Type) []callRes {
	er := e.newError(st)
	if f, ok := args[0].(*StringVal); ok {
		if len(args) == 1 {
			er.Msg = f
		} else if f.Tag != nil && len(f.Tag.Segs) == 1 && f.Tag.Segs[0].Kind == "lit" {
			if segs, ok := parseFormat(e, st, f.Tag.Segs[0].Lit, e.variadicArgs(st, args[1])); ok {
				er.Msg = &StringVal{C: &ArrFill{Val: zeroOf(e.C, e.elemSort(types.Typ[types.Uint8]))}, Off: e.idx(0), Len: e.idx(0), Tag: &StrTag{Segs: segs}}
			}
		}
	}
	return []callRes{{st, er}}
}

func intrOpaqueString(e *Exec, st *State, fr *Frame, args []Val, in ssa.Instruction, rt types.Type) []callRes {
	return []callRes{{st, e.freshString(st, "str", 0)}}
}

func intrOpaqueFloat(e *Exec, st *State, fr *Frame, args []Val, in ssa.Instruction, rt types.Type) []callRes {
	return []callRes{{st, &OpaqueVal{Name: "float"}}}
}

func intrFreshBool(e *Exec, st *State, fr *Frame, args []Val, in ssa.Instruction, rt types.Type) []callRes {
	return []callRes{{st, e.C.Fresh("b", BoolS)}}
}

// variadicArgs extracts the elements of the ...interface{} slice argument.
func (e *Exec) variadicArgs(st *State, v Val) []Val {
	s, ok := v.(*SliceVal)
	if !ok || s.Obj == 0 {
		return nil
	}
	av := e.sliceBacking(st, s)
	if av == nil || av.Scalar || !s.Off.IsConst() || !s.Len.IsConst() {
		return nil
	}
	o, l := int(s.Off.C.Int64()), int(s.Len.C.Int64())
	return av.List[o : o+l]
}

// Sprintf with a constant format: the result carries a segment tag (used by spec functions on strings);
// contents are otherwise uninterpreted except for pure-literal / %s concatenations.
func intrSprintf(e *Exec, st *State, fr *Frame, args []Val, in ssa.Instruction, rt types.Type) []callRes {
	f, ok := args[0].(*StringVal)
	if !ok || f.Tag == nil || len(f.Tag.Segs) != 1 || f.Tag.Segs[0].Kind != "lit" {
		return intrOpaqueString(e, st, fr, args, in, rt)
	}
	format := f.Tag.Segs[0].Lit
	va := e.variadicArgs(st, args[1])
	segs, ok := parseFormat(e, st, format, va)
	if !ok {
		return intrOpaqueString(e, st, fr, args, in, rt)
	}
	return []callRes{{st, e.stringFromSegs(st, segs)}}
}

func parseFormat(e *Exec, st *State, format string, va []Val) ([]StrSeg, bool) {
	var segs []StrSeg
	lit := ""
	ai := 0
	flush := func() {
		if lit != "" {
			segs = append(segs, StrSeg{Kind: "lit", Lit: lit})
			lit = ""
		}
	}
	for i := 0; i < len(format); i++ {
		ch := format[i]
		if ch != '%' {
			lit += string(ch)
			continue
		}
		i++
		if i >= len(format) {
			return nil, false
		}
		if format[i] == '%' {
			lit += "%"
			continue
		}
		zero := false
		width := 0
		if format[i] == '0' {
			zero = true
			i++
		}
		for i < len(format) && format[i] >= '0' && format[i] <= '9' {
			width = width*10 + int(format[i]-'0')
			i++
		}
		if i >= len(format) || ai >= len(va) {
			return nil, false
		}
		verb := format[i]
		if width > 0 && !zero {
			return nil, false
		}
		a := va[ai]
		ai++
		iv, ok := a.(*IfaceVal)
		if ok && (iv.Dyn == nil || iv.Opaque) && (verb == 's' || verb == 'v') {
			// an error or other opaque value rendered as text: some string
			flush()
			segs = append(segs, StrSeg{Kind: "str", S: e.freshString(st, "fmtarg", 0)})
			continue
		}
		if !ok || iv.Dyn == nil {
			return nil, false
		}
		flush()
		switch verb {
		case 'd':
			t, ok := iv.V.(*Term)
			if !ok || !isIntType(iv.Dyn) || width > 0 {
				return nil, false
			}
			segs = append(segs, StrSeg{Kind: "dec", T: t, Signed: isSigned(iv.Dyn)})
		case 'x', 'X':
			t, ok := iv.V.(*Term)
			if !ok || !isIntType(iv.Dyn) || isSigned(iv.Dyn) {
				return nil, false
			}
			k := "hex"
			if verb == 'X' {
				k = "HEX"
			}
			segs = append(segs, StrSeg{Kind: k, T: t, W: width})
		case 's', 'v':
			s, ok := iv.V.(*StringVal)
			if !ok {
				return nil, false
			}
			if s.Tag != nil {
				segs = append(segs, s.Tag.Segs...)
			} else {
				segs = append(segs, StrSeg{Kind: "str", S: s})
			}
		default:
			return nil, false
		}
	}
	flush()
	return segs, true
}

// stringFromSegs builds a string value from segments. Literal and %s segments have defined contents;
// numeric renderings are uninterpreted byte functions of their argument (length constrained).
func (e *Exec) stringFromSegs(st *State, segs []StrSeg) *StringVal {
	var res *StringVal
	for _, sg := range segs {
		var part *StringVal
		switch sg.Kind {
		case "lit":
			part = e.strConst(sg.Lit)
		case "str":
			part = sg.S
		default:
			part = e.numString(st, sg)
		}
		part = &StringVal{C: part.C, Off: part.Off, Len: part.Len, Tag: &StrTag{Segs: []StrSeg{sg}}}
		if res == nil {
			res = part
		} else {
			res = e.strConcat(st, res, part)
		}
	}
	if res == nil {
		return e.strConst("")
	}
	e.recordConcatShape(st, res, segs)
	return res
}

// recordConcatShape: when every segment has a known shape, the concatenation has one too.
func (e *Exec) recordConcatShape(st *State, res *StringVal, segs []StrSeg) {
	if !res.Len.IsConst() {
		return
	}
	var sh rxShape
	for _, sg := range segs {
		switch sg.Kind {
		case "lit":
			sh = append(sh, litShape(sg.Lit)...)
		case "str":
			ps, ok := e.knownShape(st, sg.S)
			if !ok {
				return
			}
			sh = append(sh, ps...)
		case "hex", "HEX":
			if sg.W == 0 {
				return
			}
			for i := 0; i < sg.W; i++ {
				var it rxItem
				it.lit = -1
				for b := '0'; b <= '9'; b++ {
					it.set[b] = true
				}
				lo, hi := 'a', 'f'
				if sg.Kind == "HEX" {
					lo, hi = 'A', 'F'
				}
				for b := lo; b <= hi; b++ {
					it.set[b] = true
				}
				sh = append(sh, it)
			}
		default:
			return
		}
	}
	if int64(len(sh)) != res.Len.C.Int64() {
		return
	}
	st.StrFacts = append(st.StrFacts[:len(st.StrFacts):len(st.StrFacts)], &StrFact{C: res.C, Off: res.Off, Shape: sh})
}

func litShape(s string) rxShape {
	sh := make(rxShape, len(s))
	for i := 0; i < len(s); i++ {
		sh[i].lit = int(s[i])
		sh[i].set[s[i]] = true
	}
	return sh
}

// numString: rendering of an integer. Fixed-width hex (width == number of nibbles) is fully defined;
// anything else is an uninterpreted function of the argument.
func (e *Exec) numString(st *State, sg StrSeg) *StringVal {
	c := e.C
	t := sg.T
	if sg.Kind == "dec" && t.IsConst() {
		// a constant renders to its decimal digits
		v := t.C
		if sg.Signed && t.S.IsBV() {
			v = toSigned(t.C, t.S.W)
		}
		return e.strConst(v.String())
	}
	exact := (sg.Kind == "hex" || sg.Kind == "HEX") && !e.IntMode && sg.W > 0 && sg.W*4 >= t.S.W
	if !exact && (sg.Kind == "hex" || sg.Kind == "HEX") && !e.IntMode && sg.W > 0 && st.Record == nil {
		// narrower than the type: exactly W digits when the path condition bounds the value below 16^W
		bound := c.ULt(t, c.BVConst(pow2(uint(4*sg.W)), t.S.W))
		if bound.IsTrue() || e.quickValid(st, bound) {
			exact = true
		}
	}
	if exact {
		// zero padded to W digits and the value needs no more: exactly W digits
		n := sg.W
		vals := make([]*Term, n)
		for i := 0; i < n; i++ {
			shift := 4 * (n - 1 - i)
			var nib *Term
			if shift >= t.S.W {
				nib = c.BVu(0, 8)
			} else {
				hi := shift + 3
				if hi >= t.S.W {
					hi = t.S.W - 1
				}
				nib = c.ZExt(c.Extract(hi, shift, t), 8)
			}
			alpha := uint64('a' - 10)
			if sg.Kind == "HEX" {
				alpha = 'A' - 10
			}
			vals[i] = c.Ite(c.ULt(nib, c.BVu(10, 8)), c.Add(nib, c.BVu('0', 8)), c.Add(nib, c.BVu(alpha, 8)))
		}
		r := &StringVal{C: &ArrLit{Vals: vals, Rest: &ArrFill{Val: c.BVu(0, 8)}}, Off: e.idx(0), Len: e.idx(int64(n))}
		sh := make(rxShape, n)
		for i := range sh {
			sh[i].lit = -1
			for b := '0'; b <= '9'; b++ {
				sh[i].set[b] = true
			}
			lo, hi := 'a', 'f'
			if sg.Kind == "HEX" {
				lo, hi = 'A', 'F'
			}
			for b := lo; b <= hi; b++ {
				sh[i].set[b] = true
			}
		}
		st.StrFacts = append(st.StrFacts[:len(st.StrFacts):len(st.StrFacts)], &StrFact{C: r.C, Off: r.Off, Shape: sh})
		return r
	}
	// uninterpreted rendering: fn(kind, value) -> (len, bytes)
	name := "render_" + sg.Kind
	if sg.Signed {
		name += "_s"
	}
	lenFn := name + "_len_" + t.S.SMT()
	lenFn = sanitize(lenFn)
	l := c.App(lenFn, e.idxSort(), t)
	maxl := int64(20)
	if sg.W > 20 {
		maxl = int64(sg.W)
	}
	st.assume(c.And(e.leIdx(e.idx(1), l), e.leIdx(l, e.idx(maxl))))
	byteFn := sanitize(name + "_byte_" + t.S.SMT())
	es := e.elemSort(types.Typ[types.Uint8])
	e.arrFnID++
	cont := &ArrFn{ID: e.arrFnID, F: func(i *Term) *Term { return c.App(byteFn, es, t, i) }}
	return &StringVal{C: cont, Off: e.idx(0), Len: l}
}

// ---- strconv ----

// parse functions are uninterpreted over (contents, off, len): ok flag and value.
func (e *Exec) strKey(s *StringVal) []*Term {
	// a string is identified for UF purposes by a digest term: we use len plus an uninterpreted hash of contents.
	return nil
}

func (e *Exec) parseIntModel(st *State, s *StringVal, base int, bits int, signed bool, tag string) (*Term, *IfaceVal) {
	c := e.C
	var t types.Type = types.Typ[types.Uint64]
	if signed {
		t = types.Typ[types.Int64]
	}
	if cs, isC := concreteString(s); isC && (base == 10 || base == 16 || base == 8 || base == 2) {
		// a constant string is parsed exactly
		var bi *big.Int
		var perr error
		if signed {
			x, err := strconv.ParseInt(cs, base, bits)
			bi, perr = big.NewInt(x), err
		} else {
			x, err := strconv.ParseUint(cs, base, bits)
			bi, perr = new(big.Int).SetUint64(x), err
		}
		if perr != nil {
			// strconv returns the clamped value on range errors; callers only use it after checking err
			return c.NumConst(bi, e.sortOf(t)), e.newError(st)
		}
		return c.NumConst(bi, e.sortOf(t)), &IfaceVal{IsNil: c.True()}
	}
	v := c.Fresh(tag+".val", e.sortOf(t))
	okb := c.Fresh(tag+".ok", BoolS)
	// range by bit size
	if e.IntMode {
		var lo, hi *big.Int
		if signed {
			hi = new(big.Int).Sub(pow2(uint(bits-1)), big.NewInt(1))
			lo = new(big.Int).Neg(pow2(uint(bits - 1)))
		} else {
			lo, hi = big.NewInt(0), new(big.Int).Sub(pow2(uint(bits)), big.NewInt(1))
		}
		st.assume(c.And(c.ILe(c.IntConst(lo), v), c.ILe(v, c.IntConst(hi))))
	} else if bits < 64 {
		if signed {
			hi := c.BVConst(new(big.Int).Sub(pow2(uint(bits-1)), big.NewInt(1)), 64)
			lo := c.BVConst(new(big.Int).Neg(pow2(uint(bits-1))), 64)
			st.assume(c.And(c.SLe(lo, v), c.SLe(v, hi)))
		} else {
			st.assume(c.ULe(v, c.BVConst(new(big.Int).Sub(pow2(uint(bits)), big.NewInt(1)), 64)))
		}
	}
	// empty string never parses
	st.assume(c.Implies(c.Eq(s.Len, e.idx(0)), c.Not(okb)))
	// the string is a known rendering of an integer x (Sprintf %d / %x / Itoa): parsing in the same base
	// succeeds exactly when x fits the requested bit size, and yields x
	if s.Tag != nil && len(s.Tag.Segs) == 1 {
		sg := s.Tag.Segs[0]
		okKind := (base == 10 && sg.Kind == "dec") || (base == 16 && (sg.Kind == "hex" || sg.Kind == "HEX"))
		if okKind && !e.IntMode && sg.T.S.IsBV() {
			x := sg.T
			var x64 *Term
			if sg.Signed && sg.Kind == "dec" {
				x64 = c.SExt(x, 64)
			} else {
				x64 = c.ZExt(x, 64)
			}
			var fits *Term
			if signed {
				lo := c.BVConst(new(big.Int).Neg(pow2(uint(bits-1))), 64)
				hi := c.BVConst(new(big.Int).Sub(pow2(uint(bits-1)), big.NewInt(1)), 64)
				fits = c.And(c.SLe(lo, x64), c.SLe(x64, hi))
				if !(sg.Signed && sg.Kind == "dec") {
					fits = c.And(fits, c.SLe(c.BVu(0, 64), x64)) // unsigned rendering: value as unsigned must fit
				}
			} else {
				fits = c.True()
				if bits < 64 {
					fits = c.ULe(x64, c.BVConst(new(big.Int).Sub(pow2(uint(bits)), big.NewInt(1)), 64))
				}
				if sg.Signed && sg.Kind == "dec" {
					fits = c.And(fits, c.SLe(c.BVu(0, 64), x64)) // a leading '-' is rejected by ParseUint
				}
			}
			st.assume(c.Eq(okb, fits))
			st.assume(c.Implies(okb, c.Eq(v, x64)))
			err := &IfaceVal{Opaque: true, IsNil: okb, ID: c.Fresh("errid", BV(64))}
			return v, err
		}
		if okKind && e.IntMode && sg.T.S.IsInt() {
			st.assume(okb)
			st.assume(c.Eq(v, sg.T))
		}
	}
	// constant-length input, unsigned parse: strconv's definition, byte by byte
	if !signed && !e.IntMode && s.Len.IsConst() && s.Len.C.IsInt64() {
		n := int(s.Len.C.Int64())
		maxN := 16
		if base == 10 {
			maxN = 19
		}
		if (base == 16 || base == 10) && n >= 1 && n <= maxN {
			allOK := c.True()
			val := c.BVu(0, 64)
			for i := 0; i < n; i++ {
				b := e.sel(s.C, c.Add(s.Off, e.idx(int64(i))))
				isDigit := c.And(c.ULe(c.BVu('0', 8), b), c.ULe(b, c.BVu('9', 8)))
				var okc, dv *Term
				if base == 16 {
					isLo := c.And(c.ULe(c.BVu('a', 8), b), c.ULe(b, c.BVu('f', 8)))
					isUp := c.And(c.ULe(c.BVu('A', 8), b), c.ULe(b, c.BVu('F', 8)))
					okc = c.Or(isDigit, isLo, isUp)
					dv = c.Ite(isDigit, c.Sub(b, c.BVu('0', 8)), c.Ite(isLo, c.Sub(b, c.BVu('a'-10, 8)), c.Sub(b, c.BVu('A'-10, 8))))
					val = c.BvOr(c.Shl(val, c.BVu(4, 64)), c.ZExt(dv, 64))
				} else {
					okc = isDigit
					dv = c.Sub(b, c.BVu('0', 8))
					val = c.Add(c.Mul(val, c.BVu(10, 64)), c.ZExt(dv, 64))
				}
				allOK = c.And(allOK, okc)
			}
			fits := c.True()
			if bits < 64 {
				fits = c.ULe(val, c.BVConst(new(big.Int).Sub(pow2(uint(bits)), big.NewInt(1)), 64))
			}
			st.assume(c.Eq(okb, c.And(allOK, fits)))
			st.assume(c.Implies(okb, c.Eq(v, val)))
			e.UsedIntrinsics["strconv.ParseUint on constant-length input: defined byte by byte (base 10/16)"] = true
			return v, &IfaceVal{Opaque: true, IsNil: okb, ID: c.Fresh("errid", BV(64))}
		}
	}
	// ghost link: parse_val / parse_ok are functions of the string identity
	if id := e.strIdent(s); id != nil {
		pv := c.App(sanitize("parse_val_"+v.S.SMT()), v.S, id...)
		po := c.App("parse_ok", BoolS, id...)
		st.assume(c.Eq(okb, po))
		st.assume(c.Implies(okb, c.Eq(v, pv)))
	}
	err := &IfaceVal{Opaque: true, IsNil: okb, ID: c.Fresh("errid", BV(64))}
	return v, err
}

// strIdent: terms identifying a string whose contents are an uninterpreted base array (e.g. a parameter).
func (e *Exec) strIdent(s *StringVal) []*Term {
	if b, ok := s.C.(*ArrBase); ok {
		id := e.C.Var("strid."+b.Name, e.idxSort())
		return []*Term{id, s.Off, s.Len}
	}
	return nil
}

func constInt(v Val) (int64, bool) {
	t, ok := v.(*Term)
	if !ok || !t.IsConst() {
		return 0, false
	}
	return t.SInt().Int64(), true
}

func intrParseInt(e *Exec, st *State, fr *Frame, args []Val, in ssa.Instruction, rt types.Type) []callRes {
	bits, ok := constInt(args[2])
	base, ok2 := constInt(args[1])
	if !ok || !ok2 {
		e.bail("ParseInt with symbolic base/bitsize")
	}
	if bits == 0 {
		bits = 64
	}
	v, err := e.parseIntModel(st, args[0].(*StringVal), int(base), int(bits), true, "parseint")
	return []callRes{{st, TupleVal{v, err}}}
}

func intrParseUint(e *Exec, st *State, fr *Frame, args []Val, in ssa.Instruction, rt types.Type) []callRes {
	bits, ok := constInt(args[2])
	if !ok {
		e.bail("ParseUint with symbolic bitsize")
	}
	if bits == 0 {
		bits = 64
	}
	base, okb := constInt(args[1])
	if !okb {
		e.bail("ParseUint with symbolic base")
	}
	v, err := e.parseIntModel(st, args[0].(*StringVal), int(base), int(bits), false, "parseuint")
	return []callRes{{st, TupleVal{v, err}}}
}

func intrAtoi(e *Exec, st *State, fr *Frame, args []Val, in ssa.Instruction, rt types.Type) []callRes {
	v, err := e.parseIntModel(st, args[0].(*StringVal), 10, 64, true, "atoi")
	return []callRes{{st, TupleVal{v, err}}}
}

func intrItoa(e *Exec, st *State, fr *Frame, args []Val, in ssa.Instruction, rt types.Type) []callRes {
	return []callRes{{st, e.stringFromSegs(st, []StrSeg{{Kind: "dec", T: args[0].(*Term), Signed: true}})}}
}

// ---- time (only in int mode) ----

func (e *Exec) needInt(what string) {
	if !e.IntMode {
		e.bail("%s requires `mode int`", what)
	}
}

// timeAbstract: in bit-vector mode time.Time values are opaque; scalar results are unconstrained.
func (e *Exec) timeAbstract(st *State, rt types.Type, what string) []callRes {
	e.UsedIntrinsics["time."+what+" (bit-vector mode: opaque time value, unconstrained result)"] = true
	if rt == nil {
		return []callRes{{st, nil}}
	}
	if isTimeType(rt) {
		return []callRes{{st, &OpaqueVal{T: rt, Name: "time"}}}
	}
	if isIntType(rt) {
		v := e.C.Fresh("time."+what, e.sortOf(rt))
		return []callRes{{st, v}}
	}
	if isBoolType(rt) {
		return []callRes{{st, e.C.Fresh("time."+what, BoolS)}}
	}
	return []callRes{{st, e.freshResult(st, rt, "time."+what)}}
}

func intrTimeUnix(e *Exec, st *State, fr *Frame, args []Val, in ssa.Instruction, rt types.Type) []callRes {
	if !e.IntMode {
		return e.timeAbstract(st, rt, "Unix")
	}
	c := e.C
	sec, ns := args[0].(*Term), args[1].(*Term)
	g := c.Inti(1000000000)
	// normalisation as documented: nsec outside [0, 1e9) is carried into sec
	return []callRes{{st, &TimeVal{Sec: c.Add(sec, c.IDiv(ns, g)), Nsec: c.IMod(ns, g)}}}
}

func intrTimeGetUnix(e *Exec, st *State, fr *Frame, args []Val, in ssa.Instruction, rt types.Type) []callRes {
	if !e.IntMode {
		return e.timeAbstract(st, rt, "Time.Unix")
	}
	return []callRes{{st, args[0].(*TimeVal).Sec}}
}

func intrTimeUnixNano(e *Exec, st *State, fr *Frame, args []Val, in ssa.Instruction, rt types.Type) []callRes {
	if !e.IntMode {
		return e.timeAbstract(st, rt, "UnixNano")
	}
	c := e.C
	t := args[0].(*TimeVal)
	v := c.Add(c.Mul(t.Sec, c.Inti(1000000000)), t.Nsec)
	// Go: result undefined if it does not fit int64; the runtime wraps. In exact mode this is an overflow obligation.
	if e.Exact {
		e.oblige(st, fr, in, "ovf", e.rangeFact(v, types.Typ[types.Int64]))
		return []callRes{{st, v}}
	}
	return []callRes{{st, e.wrapInt(v, types.Typ[types.Int64])}}
}

func intrTimeNanosecond(e *Exec, st *State, fr *Frame, args []Val, in ssa.Instruction, rt types.Type) []callRes {
	if !e.IntMode {
		return e.timeAbstract(st, rt, "Nanosecond")
	}
	return []callRes{{st, args[0].(*TimeVal).Nsec}}
}

func intrTimeNow(e *Exec, st *State, fr *Frame, args []Val, in ssa.Instruction, rt types.Type) []callRes {
	if !e.IntMode {
		return e.timeAbstract(st, rt, "Now")
	}
	c := e.C
	sec := c.Fresh("now.sec", IntS)
	ns := c.Fresh("now.nsec", IntS)
	st.assume(c.And(c.ILe(c.Inti(0), ns), c.ILt(ns, c.Inti(1000000000))))
	// the present lies between 2020 and 2200
	st.assume(c.And(c.ILe(c.Inti(1577836800), sec), c.ILe(sec, c.Inti(7258118400))))
	return []callRes{{st, &TimeVal{Sec: sec, Nsec: ns}}}
}

func intrTimeAdd(e *Exec, st *State, fr *Frame, args []Val, in ssa.Instruction, rt types.Type) []callRes {
	if !e.IntMode {
		return e.timeAbstract(st, rt, "Add")
	}
	c := e.C
	t := args[0].(*TimeVal)
	d := args[1].(*Term)
	g := c.Inti(1000000000)
	tot := c.Add(t.Nsec, d)
	return []callRes{{st, &TimeVal{Sec: c.Add(t.Sec, c.IDiv(tot, g)), Nsec: c.IMod(tot, g)}}}
}

func timeLess(e *Exec, a, b *TimeVal) *Term {
	c := e.C
	return c.Or(c.ILt(a.Sec, b.Sec), c.And(c.Eq(a.Sec, b.Sec), c.ILt(a.Nsec, b.Nsec)))
}

func intrTimeAfter(e *Exec, st *State, fr *Frame, args []Val, in ssa.Instruction, rt types.Type) []callRes {
	a, ok1 := args[0].(*TimeVal)
	b, ok2 := args[1].(*TimeVal)
	if !ok1 || !ok2 {
		return intrFreshBool(e, st, fr, args, in, rt)
	}
	return []callRes{{st, timeLess(e, b, a)}}
}

func intrTimeBefore(e *Exec, st *State, fr *Frame, args []Val, in ssa.Instruction, rt types.Type) []callRes {
	a, ok1 := args[0].(*TimeVal)
	b, ok2 := args[1].(*TimeVal)
	if !ok1 || !ok2 {
		return intrFreshBool(e, st, fr, args, in, rt)
	}
	return []callRes{{st, timeLess(e, a, b)}}
}

func intrTimeIsZero(e *Exec, st *State, fr *Frame, args []Val, in ssa.Instruction, rt types.Type) []callRes {
	a, ok := args[0].(*TimeVal)
	if !ok {
		return intrFreshBool(e, st, fr, args, in, rt)
	}
	return []callRes{{st, e.C.And(e.C.Eq(a.Sec, e.C.Inti(-62135596800)), e.C.Eq(a.Nsec, e.C.Inti(0)))}}
}

func intrTimeSub(e *Exec, st *State, fr *Frame, args []Val, in ssa.Instruction, rt types.Type) []callRes {
	if !e.IntMode {
		return e.timeAbstract(st, rt, "Sub")
	}
	c := e.C
	a, b := args[0].(*TimeVal), args[1].(*TimeVal)
	v := c.Add(c.Mul(c.Sub(a.Sec, b.Sec), c.Inti(1000000000)), c.Sub(a.Nsec, b.Nsec))
	// saturating as documented
	lo, hi := typeRange(types.Typ[types.Int64])
	r := c.Ite(c.ILt(v, c.IntConst(lo)), c.IntConst(lo), c.Ite(c.ILt(c.IntConst(hi), v), c.IntConst(hi), v))
	return []callRes{{st, r}}
}

func intrDurationFresh(e *Exec, st *State, fr *Frame, args []Val, in ssa.Instruction, rt types.Type) []callRes {
	v := e.C.Fresh("dur", e.sortOf(types.Typ[types.Int64]))
	st.assume(e.rangeFact(v, types.Typ[types.Int64]))
	return []callRes{{st, v}}
}

// ---- bytes / strings ----

func (e *Exec) seqOfVal(st *State, v Val) (ArrC, *Term, *Term) {
	switch x := v.(type) {
	case *StringVal:
		return x.C, x.Off, x.Len
	case *SliceVal:
		if x.Obj == 0 {
			return &ArrFill{Val: zeroOf(e.C, e.elemSort(types.Typ[types.Uint8]))}, e.idx(0), e.idx(0)
		}
		av := e.sliceBacking(st, x)
		return av.C, x.Off, x.Len
	}
	e.bail("expected byte sequence, got %T", v)
	return nil, nil, nil
}

func (e *Exec) seqEqTerm(st *State, a, b Val) *Term {
	ac, ao, al := e.seqOfVal(st, a)
	bc, bo, bl := e.seqOfVal(st, b)
	return e.strEq(st, &StringVal{C: ac, Off: ao, Len: al}, &StringVal{C: bc, Off: bo, Len: bl})
}

func intrBytesEqual(e *Exec, st *State, fr *Frame, args []Val, in ssa.Instruction, rt types.Type) []callRes {
	return []callRes{{st, e.seqEqTerm(st, args[0], args[1])}}
}

// strings.ToUpper / ToLower: uninterpreted per-byte map on ASCII inputs is NOT assumed; only that the
// result is some string; for ASCII-only results length is preserved. We model: fresh string, same length
// when every input byte < 0x80 (stated as an implication with an uninterpreted predicate kept abstract).
func intrStrMapSameLen(kind string) intrinsic {
	return func(e *Exec, st *State, fr *Frame, args []Val, in ssa.Instruction, rt types.Type) []callRes {
		s := args[0].(*StringVal)
		c := e.C
		if sh, ok := e.knownShape(st, s); ok {
			// identity when no position can hold a letter of the other case
			changes := false
			for i := range sh {
				lo, hi := 'A', 'Z'
				if kind == "toupper" {
					lo, hi = 'a', 'z'
				}
				for b := lo; b <= hi; b++ {
					if sh[i].set[b] {
						changes = true
					}
				}
				for b := 128; b < 256; b++ {
					if sh[i].set[b] {
						changes = true
					}
				}
			}
			if !changes {
				return []callRes{{st, s}}
			}
			if r, ok := e.lowerByShape(st, s, sh, kind == "toupper"); ok {
				return []callRes{{st, r}}
			}
		}
		if cs, isC := concreteString(s); isC {
			if kind == "toupper" {
				return []callRes{{st, e.strConst(strings.ToUpper(cs))}}
			}
			return []callRes{{st, e.strConst(strings.ToLower(cs))}}
		}
		// a string of concrete length whose bytes are all provably ASCII: exact per-byte mapping
		if !e.IntMode {
			if bs, ok := e.asciiBytes(st, s); ok {
				vals := make([]*Term, len(bs))
				for i, bt := range bs {
					if kind == "tolower" {
						vals[i] = c.Ite(c.And(c.ULe(c.BVu('A', 8), bt), c.ULe(bt, c.BVu('Z', 8))), c.Add(bt, c.BVu(32, 8)), bt)
					} else {
						vals[i] = c.Ite(c.And(c.ULe(c.BVu('a', 8), bt), c.ULe(bt, c.BVu('z', 8))), c.Sub(bt, c.BVu(32, 8)), bt)
					}
				}
				cont := &ArrLit{Vals: vals, Rest: &ArrFill{Val: zeroOf(c, e.elemSort(types.Typ[types.Uint8]))}}
				return []callRes{{st, &StringVal{C: cont, Off: e.idx(0), Len: e.idx(int64(len(vals)))}}}
			}
		}
		nm := c.FreshName(kind)
		l := c.Var(nm+".len", e.idxSort())
		st.assume(e.lenFact(l))
		// Unicode case mapping can change the byte length by at most a factor 3
		st.assume(e.leIdx(l, c.Mul(s.Len, e.idx(3))))
		st.assume(c.Implies(c.Eq(s.Len, e.idx(0)), c.Eq(l, e.idx(0))))
		es := e.elemSort(types.Typ[types.Uint8])
		src := s
		fn := "ascii_" + kind
		e.arrFnID++
		base := e.arrBase(nm+".arr", types.Typ[types.Uint8])
		// byte i: if the whole input is ASCII (abstracted by flag), out[i] = asciimap(in[i])
		ascii := c.Var(nm+".ascii", BoolS)
		st.assume(c.Implies(ascii, c.Eq(l, s.Len)))
		cont := &ArrFn{ID: e.arrFnID, F: func(i *Term) *Term {
			return c.Ite(ascii, c.App(fn, es, e.sel(src.C, c.Add(src.Off, i))), e.sel(base, i))
		}}
		e.UsedIntrinsics["strings."+kind+" (per-byte ascii map when input is ASCII, else uninterpreted)"] = true
		return []callRes{{st, &StringVal{C: cont, Off: e.idx(0), Len: l}}}
	}
}

func (e *Exec) prefixTerm(st *State, s, p *StringVal) *Term {
	c := e.C
	if !p.Len.IsConst() || p.Len.C.Int64() > 64 {
		return nil
	}
	n := p.Len.C.Int64()
	r := e.leIdx(p.Len, s.Len)
	for i := int64(0); i < n; i++ {
		r = c.And(r, c.Eq(e.sel(s.C, c.Add(s.Off, e.idx(i))), e.sel(p.C, c.Add(p.Off, e.idx(i)))))
	}
	return r
}

func (e *Exec) suffixTerm(st *State, s, p *StringVal) *Term {
	c := e.C
	if !p.Len.IsConst() || p.Len.C.Int64() > 64 {
		return nil
	}
	n := p.Len.C.Int64()
	r := e.leIdx(p.Len, s.Len)
	base := c.Sub(c.Add(s.Off, s.Len), p.Len)
	for i := int64(0); i < n; i++ {
		r = c.And(r, c.Eq(e.sel(s.C, c.Add(base, e.idx(i))), e.sel(p.C, c.Add(p.Off, e.idx(i)))))
	}
	return r
}

func intrHasPrefix(e *Exec, st *State, fr *Frame, args []Val, in ssa.Instruction, rt types.Type) []callRes {
	t := e.prefixTerm(st, args[0].(*StringVal), args[1].(*StringVal))
	if t == nil {
		return intrFreshBool(e, st, fr, args, in, rt)
	}
	return []callRes{{st, t}}
}

func intrHasSuffix(e *Exec, st *State, fr *Frame, args []Val, in ssa.Instruction, rt types.Type) []callRes {
	t := e.suffixTerm(st, args[0].(*StringVal), args[1].(*StringVal))
	if t == nil {
		return intrFreshBool(e, st, fr, args, in, rt)
	}
	return []callRes{{st, t}}
}

// trimTagged: TrimPrefix / TrimSuffix of a string whose segment list starts (ends) with a literal that decides
// the question; the result keeps its segment list.
func (e *Exec) trimTagged(st *State, s, p *StringVal, suffix bool) (*StringVal, bool) {
	lit, ok := concreteString(p)
	if !ok || s.Tag == nil || len(s.Tag.Segs) == 0 || lit == "" {
		return nil, false
	}
	segs := append([]StrSeg{}, s.Tag.Segs...)
	k := 0
	if suffix {
		k = len(segs) - 1
	}
	if segs[k].Kind != "lit" || len(segs[k].Lit) < len(lit) {
		return nil, false
	}
	if suffix {
		if !strings.HasSuffix(segs[k].Lit, lit) {
			return s, true
		}
		segs[k].Lit = strings.TrimSuffix(segs[k].Lit, lit)
	} else {
		if !strings.HasPrefix(segs[k].Lit, lit) {
			return s, true
		}
		segs[k].Lit = strings.TrimPrefix(segs[k].Lit, lit)
	}
	return e.stringFromSegs(st, segs), true
}

func intrTrimPrefix(e *Exec, st *State, fr *Frame, args []Val, in ssa.Instruction, rt types.Type) []callRes {
	s, p := args[0].(*StringVal), args[1].(*StringVal)
	if r, ok := e.trimTagged(st, s, p, false); ok {
		return []callRes{{st, r}}
	}
	t := e.prefixTerm(st, s, p)
	if t == nil {
		return intrOpaqueString(e, st, fr, args, in, rt)
	}
	c := e.C
	return []callRes{{st, &StringVal{C: s.C, Off: c.Ite(t, c.Add(s.Off, p.Len), s.Off), Len: c.Ite(t, c.Sub(s.Len, p.Len), s.Len)}}}
}

func intrTrimSuffix(e *Exec, st *State, fr *Frame, args []Val, in ssa.Instruction, rt types.Type) []callRes {
	s, p := args[0].(*StringVal), args[1].(*StringVal)
	if r, ok := e.trimTagged(st, s, p, true); ok {
		return []callRes{{st, r}}
	}
	t := e.suffixTerm(st, s, p)
	if t == nil {
		return intrOpaqueString(e, st, fr, args, in, rt)
	}
	c := e.C
	return []callRes{{st, &StringVal{C: s.C, Off: s.Off, Len: c.Ite(t, c.Sub(s.Len, p.Len), s.Len)}}}
}

// TrimSpace: result is a sub-window of the input (contents preserved).
func intrTrimSpace(e *Exec, st *State, fr *Frame, args []Val, in ssa.Instruction, rt types.Type) []callRes {
	return []callRes{{st, e.trimSpace(st, args[0].(*StringVal))}}
}

// trimSpace: the result is a sub-window of the input; for symbolic inputs the window bounds are
// uninterpreted functions of the string identity (so that contracts can refer to the same window).
func (e *Exec) trimSpace(st *State, s *StringVal) *StringVal {
	c := e.C
	if cs, isC := concreteString(s); isC {
		return e.strConst(strings.TrimSpace(cs))
	}
	if sh, ok := e.knownShape(st, s); ok && len(sh) > 0 {
		isSp := func(it rxItem) bool {
			for _, b := range []byte{' ', '\t', '\n', '\v', '\f', '\r', 0x85, 0xA0} {
				if it.set[b] {
					return true
				}
			}
			for b := 128; b < 256; b++ {
				if it.set[b] {
					return true
				}
			}
			return false
		}
		if !isSp(sh[0]) && !isSp(sh[len(sh)-1]) {
			return s
		}
	}
	var a, b *Term
	if id := e.strIdent(s); id != nil {
		a = c.App("trimspace_lo", e.idxSort(), id...)
		b = c.App("trimspace_hi", e.idxSort(), id...)
	} else {
		a = c.Fresh("trim.lo", e.idxSort())
		b = c.Fresh("trim.hi", e.idxSort())
	}
	st.assume(c.And(e.nonNeg(a), e.leIdx(a, b), e.leIdx(b, s.Len)))
	return &StringVal{C: s.C, Off: c.Add(s.Off, a), Len: c.Sub(b, a)}
}

func intrRepeat(e *Exec, st *State, fr *Frame, args []Val, in ssa.Instruction, rt types.Type) []callRes {
	s := args[0].(*StringVal)
	n := args[1].(*Term)
	c := e.C
	e.oblige(st, fr, in, "panic", c.Le(zeroOf(c, n.S), n, true))
	if st.Dead {
		return nil
	}
	r := e.freshString(st, "repeat", 0)
	st.assume(c.Eq(r.Len, c.Mul(s.Len, n)))
	if s.Len.IsConst() && s.Len.C.Int64() == 1 {
		b := e.sel(s.C, s.Off)
		r = &StringVal{C: &ArrFill{Val: b}, Off: e.idx(0), Len: r.Len}
	}
	return []callRes{{st, r}}
}

func intrHexEncode(e *Exec, st *State, fr *Frame, args []Val, in ssa.Instruction, rt types.Type) []callRes {
	sc, so, sl := e.seqOfVal(st, args[0])
	c := e.C
	if e.IntMode {
		return intrOpaqueString(e, st, fr, args, in, rt)
	}
	e.arrFnID++
	nib := func(b *Term, hi bool) *Term {
		var n *Term
		if hi {
			n = c.LShr(b, c.BVu(4, 8))
		} else {
			n = c.BvAnd(b, c.BVu(15, 8))
		}
		return c.Ite(c.ULt(n, c.BVu(10, 8)), c.Add(n, c.BVu('0', 8)), c.Add(n, c.BVu('a'-10, 8)))
	}
	cont := &ArrFn{ID: e.arrFnID, F: func(i *Term) *Term {
		b := e.sel(sc, c.Add(so, c.LShr(i, c.BVu(1, 64))))
		odd := c.Eq(c.BvAnd(i, c.BVu(1, 64)), c.BVu(1, 64))
		return c.Ite(odd, nib(b, false), nib(b, true))
	}}
	r := &StringVal{C: cont, Off: e.idx(0), Len: c.Mul(sl, e.idx(2))}
	if r.Len.IsConst() && r.Len.C.IsInt64() && r.Len.C.Int64() <= 512 {
		// concrete length: a literal list of the digit terms, every position a lower-case hexadecimal digit
		n := int(r.Len.C.Int64())
		vals := make([]*Term, n)
		sh := make(rxShape, n)
		for i := 0; i < n; i++ {
			vals[i] = cont.F(e.idx(int64(i)))
			sh[i].lit = -1
			for b := '0'; b <= '9'; b++ {
				sh[i].set[b] = true
			}
			for b := 'a'; b <= 'f'; b++ {
				sh[i].set[b] = true
			}
		}
		r = &StringVal{C: &ArrLit{Vals: vals, Rest: &ArrFill{Val: c.BVu(0, 8)}}, Off: e.idx(0), Len: r.Len}
		st.StrFacts = append(st.StrFacts[:len(st.StrFacts):len(st.StrFacts)], &StrFact{C: r.C, Off: r.Off, Shape: sh})
	}
	return []callRes{{st, r}}
}

func intrHexDecode(e *Exec, st *State, fr *Frame, args []Val, in ssa.Instruction, rt types.Type) []callRes {
	s := args[0].(*StringVal)
	c := e.C
	if cs, ok := concreteString(s); ok {
		// a constant string is decoded exactly
		b, err := hex.DecodeString(cs)
		if err != nil {
			return []callRes{{st, TupleVal{e.byteSliceOf(st, nil, "hexdec"), e.newError(st)}}}
		}
		vals := make([]*Term, len(b))
		for i, x := range b {
			vals[i] = c.NumConst(big.NewInt(int64(x)), e.elemSort(types.Typ[types.Uint8]))
		}
		return []callRes{{st, TupleVal{e.byteSliceOf(st, vals, "hexdec"), errNil(e)}}}
	}
	if !e.IntMode && s.Len.IsConst() && s.Len.C.IsInt64() && s.Len.C.Int64() <= 512 && s.Len.C.Int64()%2 == 0 {
		// concrete even length: the result has half as many bytes; decoding succeeds exactly when every character
		// is a hexadecimal digit, and then each byte's two nibbles render (in either letter case) to its two
		// characters. The bytes themselves are fresh: the relation determines them.
		n := int(s.Len.C.Int64()) / 2
		digit := func(ch, nib *Term) *Term {
			lo := c.Ite(c.ULt(nib, c.BVu(10, 8)), c.Add(nib, c.BVu('0', 8)), c.Add(nib, c.BVu('a'-10, 8)))
			up := c.Ite(c.ULt(nib, c.BVu(10, 8)), c.Add(nib, c.BVu('0', 8)), c.Add(nib, c.BVu('A'-10, 8)))
			return c.Or(c.Eq(ch, lo), c.Eq(ch, up))
		}
		ishex := func(ch *Term) *Term {
			return c.Or(c.And(c.ULe(c.BVu('0', 8), ch), c.ULe(ch, c.BVu('9', 8))), c.And(c.ULe(c.BVu('a', 8), ch), c.ULe(ch, c.BVu('f', 8))), c.And(c.ULe(c.BVu('A', 8), ch), c.ULe(ch, c.BVu('F', 8))))
		}
		okAll := c.True()
		rel := c.True()
		vals := make([]*Term, n)
		for i := 0; i < n; i++ {
			hi := e.sel(s.C, c.Add(s.Off, e.idx(int64(2*i))))
			lo := e.sel(s.C, c.Add(s.Off, e.idx(int64(2*i+1))))
			okAll = c.And(okAll, ishex(hi), ishex(lo))
			vals[i] = c.Fresh("hexdec.b", BV(8))
			rel = c.And(rel, digit(hi, c.LShr(vals[i], c.BVu(4, 8))), digit(lo, c.BvAnd(vals[i], c.BVu(15, 8))))
		}
		okb := c.Fresh("hexdec.ok", BoolS)
		st.assume(c.Eq(okb, okAll))
		st.assume(c.Implies(okb, rel))
		err := &IfaceVal{Opaque: true, IsNil: okb, ID: c.Fresh("errid", BV(64))}
		return []callRes{{st, TupleVal{e.byteSliceOf(st, vals, "hexdec"), err}}}
	}
	out := e.freshSliceObj(st, types.Typ[types.Uint8], "hexdec")
	e.metaAll[out.Obj].Growable = false
	okb := c.Fresh("hexdec.ok", BoolS)
	if !e.IntMode {
		st.assume(c.Implies(okb, c.Eq(c.Mul(out.Len, e.idx(2)), s.Len)))
		st.assume(e.leIdx(c.Mul(out.Len, e.idx(2)), s.Len))
	}
	err := &IfaceVal{Opaque: true, IsNil: okb, ID: c.Fresh("errid", BV(64))}
	return []callRes{{st, TupleVal{out, err}}}
}

// ---- locks (C17) ----

func intrLock(mode int) intrinsic {
	return func(e *Exec, st *State, fr *Frame, args []Val, in ssa.Instruction, rt types.Type) []callRes {
		p := args[0].(*PtrVal)
		if st.Lock == nil {
			st.Lock = map[int]int{}
		}
		key := lockKey(p)
		if st.Lock[key] != 0 {
			e.oblige(st, fr, in, "lock", e.C.False()) // self-deadlock
			return nil
		}
		st.Lock[key] = mode
		return []callRes{{st, nil}}
	}
}

func intrUnlock(mode int) intrinsic {
	return func(e *Exec, st *State, fr *Frame, args []Val, in ssa.Instruction, rt types.Type) []callRes {
		p := args[0].(*PtrVal)
		key := lockKey(p)
		if st.Lock == nil || st.Lock[key] != mode {
			e.oblige(st, fr, in, "lock", e.C.False())
			return nil
		}
		st.Lock[key] = 0
		return []callRes{{st, nil}}
	}
}

func lockKey(p *PtrVal) int {
	k := p.Obj * 1000
	for _, pe := range p.Path {
		k = k*31 + pe.Field + 1
	}
	return k
}

// ---- math/big (int mode only): *big.Int objects hold a mathematical integer ----

type BigVal struct{ T *Term }

func (e *Exec) bigOf(st *State, v Val) *Term {
	p, ok := v.(*PtrVal)
	if !ok || p.Obj == 0 {
		e.bail("big.Int: nil or unknown receiver")
	}
	r := e.load(st, p)
	switch x := r.(type) {
	case *BigVal:
		return x.T
	case *StructVal:
		return e.C.Inti(0) // zero value of big.Int
	}
	e.bail("big.Int: unexpected representation %T", r)
	return nil
}

func intrBigNewInt(e *Exec, st *State, fr *Frame, args []Val, in ssa.Instruction, rt types.Type) []callRes {
	e.needInt("math/big")
	pt := rt.(*types.Pointer)
	id := e.newObj(st, &BigVal{T: args[0].(*Term)}, &ObjMeta{T: pt.Elem(), Fresh: true})
	return []callRes{{st, &PtrVal{Obj: id, T: pt.Elem()}}}
}

func bigBin(op func(c *Ctx, a, b *Term) *Term) intrinsic {
	return func(e *Exec, st *State, fr *Frame, args []Val, in ssa.Instruction, rt types.Type) []callRes {
		e.needInt("math/big")
		z := args[0].(*PtrVal)
		if z.Obj == 0 {
			e.oblige(st, fr, in, "nil", e.C.False())
			return nil
		}
		v := op(e.C, e.bigOf(st, args[1]), e.bigOf(st, args[2]))
		e.store(st, z, &BigVal{T: v})
		return []callRes{{st, z}}
	}
}

func intrBigString(e *Exec, st *State, fr *Frame, args []Val, in ssa.Instruction, rt types.Type) []callRes {
	e.needInt("math/big")
	return []callRes{{st, e.stringFromSegs(st, []StrSeg{{Kind: "dec", T: e.bigOf(st, args[0]), Signed: true}})}}
}

func init() {
	intrinsics["math/big.NewInt"] = intrBigNewInt
	intrinsics["(*math/big.Int).Mul"] = bigBin(func(c *Ctx, a, b *Term) *Term { return c.Mul(a, b) })
	intrinsics["(*math/big.Int).Add"] = bigBin(func(c *Ctx, a, b *Term) *Term { return c.Add(a, b) })
	intrinsics["(*math/big.Int).Sub"] = bigBin(func(c *Ctx, a, b *Term) *Term { return c.Sub(a, b) })
	intrinsics["(*math/big.Int).String"] = intrBigString
}

// ---- strings.Split / Fields (safety-level models: shape only) ----

func (e *Exec) splitResult(st *State, elem types.Type, name string, minN int64, maxN *Term, maxElem *Term) *SliceVal {
	c := e.C
	r := e.symList(st, elem, c.FreshName(name))
	e.metaAll[r.Obj].Param = false
	e.metaAll[r.Obj].Fresh = true
	st.assume(c.Not(r.Nil))
	st.assume(e.leIdx(e.idx(minN), r.Len))
	if maxN != nil {
		st.assume(e.leIdx(r.Len, maxN))
	}
	av := st.Heap[r.Obj].(*ArrayVal)
	st.Heap[r.Obj] = &ArrayVal{ElemT: av.ElemT, Len: av.Len, Sym: av.Sym, SymMax: maxElem}
	return r
}

// splitTagged: Split of a string built from literal and numeric-rendering segments, on a one-byte separator
// that cannot occur inside a numeric rendering: exact.
// lacksByte: the path condition carries the marker lacks_<b>(identity of s) (see the spec builtin `lacks`).
func (e *Exec) lacksByte(st *State, s *StringVal, b byte) bool {
	id := e.strIdent(s)
	if id == nil {
		return false
	}
	want := e.C.App(fmt.Sprintf("lacks_%02x", b), BoolS, id...)
	for _, f := range st.PC {
		if f == want {
			return true
		}
	}
	// the same fact stated before a precondition fixed the string's length to a constant
	if m := constFacts(st.PC); len(m) > 0 {
		for _, f := range st.PC {
			if f.Op != "app" || f.Name != want.Name || len(f.Args) != len(want.Args) {
				continue
			}
			same := true
			for i, a := range f.Args {
				if a != want.Args[i] && e.C.Subst(a, m) != want.Args[i] {
					same = false
					break
				}
			}
			if same {
				return true
			}
		}
	}
	return false
}

func (e *Exec) splitTagged(st *State, s, sep *StringVal) ([]Val, bool) {
	lit, ok := concreteString(sep)
	if !ok || len(lit) != 1 || s.Tag == nil {
		return nil, false
	}
	b := lit[0]
	if (b >= '0' && b <= '9') || (b >= 'a' && b <= 'f') || (b >= 'A' && b <= 'F') || b == '+' {
		return nil, false
	}
	if b == '-' {
		for _, sg := range s.Tag.Segs {
			if sg.Kind == "dec" && sg.Signed {
				return nil, false
			}
		}
	}
	var parts []Val
	var cur []StrSeg
	flush := func() {
		parts = append(parts, e.stringFromSegs(st, cur))
		cur = nil
	}
	for _, sg := range s.Tag.Segs {
		switch sg.Kind {
		case "lit":
			rest := sg.Lit
			for {
				i := strings.IndexByte(rest, b)
				if i < 0 {
					break
				}
				if i > 0 {
					cur = append(cur, StrSeg{Kind: "lit", Lit: rest[:i]})
				}
				flush()
				rest = rest[i+1:]
			}
			if rest != "" {
				cur = append(cur, StrSeg{Kind: "lit", Lit: rest})
			}
		case "dec", "hex", "HEX":
			cur = append(cur, sg)
		case "str":
			if e.lacksByte(st, sg.S, b) {
				cur = append(cur, sg)
				continue
			}
			sh, ok := e.knownShape(st, sg.S)
			if !ok {
				return nil, false
			}
			pieces, ok := e.splitByShape(st, sg.S, sh, b)
			if !ok {
				return nil, false
			}
			for k, pc := range pieces {
				if k > 0 {
					flush()
				}
				if ps := pc.(*StringVal); !(ps.Len.IsConst() && ps.Len.C.Sign() == 0) {
					cur = append(cur, StrSeg{Kind: "str", S: ps})
				}
			}
		default:
			return nil, false
		}
	}
	flush()
	return parts, true
}

func intrSplit(e *Exec, st *State, fr *Frame, args []Val, in ssa.Instruction, rt types.Type) []callRes {
	if s, ok := args[0].(*StringVal); ok {
		if sep, ok := args[1].(*StringVal); ok {
			if sepS, isC := concreteString(sep); isC && len(sepS) == 1 && s.Tag == nil {
				if sh, ok := e.knownShape(st, s); ok {
					if parts, ok := e.splitByShape(st, s, sh, sepS[0]); ok {
						elem := rt.Underlying().(*types.Slice).Elem()
						n := e.idx(int64(len(parts)))
						id := e.newObj(st, &ArrayVal{ElemT: elem, Len: n, List: parts}, &ObjMeta{T: types.NewArray(elem, int64(len(parts))), Fresh: true})
						return []callRes{{st, &SliceVal{Obj: id, Off: e.idx(0), Len: n, Cap: n, Nil: e.C.False(), ElemT: elem}}}
					}
				}
			}
			if sepS, isC := concreteString(sep); isC && len(sepS) == 1 && s.Tag == nil && e.lacksByte(st, s, sepS[0]) {
				// a string known not to contain the separator is the single part
				elem := rt.Underlying().(*types.Slice).Elem()
				n := e.idx(1)
				id := e.newObj(st, &ArrayVal{ElemT: elem, Len: n, List: []Val{s}}, &ObjMeta{T: types.NewArray(elem, 1), Fresh: true})
				return []callRes{{st, &SliceVal{Obj: id, Off: e.idx(0), Len: n, Cap: n, Nil: e.C.False(), ElemT: elem}}}
			}
			if parts, ok := e.splitTagged(st, s, sep); ok {
				elem := rt.Underlying().(*types.Slice).Elem()
				n := e.idx(int64(len(parts)))
				id := e.newObj(st, &ArrayVal{ElemT: elem, Len: n, List: parts}, &ObjMeta{T: types.NewArray(elem, int64(len(parts))), Fresh: true})
				return []callRes{{st, &SliceVal{Obj: id, Off: e.idx(0), Len: n, Cap: n, Nil: e.C.False(), ElemT: elem}}}
			}
		}
	}
	_, _, sl := e.seqOfVal(st, args[0])
	elem := rt.Underlying().(*types.Slice).Elem()
	r := e.splitResult(st, elem, "split", 1, e.C.Add(sl, e.idx(1)), sl)
	if s, ok := args[0].(*StringVal); ok {
		if sep, ok := args[1].(*StringVal); ok {
			if cnt, ok := e.sepCount(st, s, sep); ok {
				st.assume(e.C.Eq(r.Len, e.C.Add(cnt, e.idx(1))))
			}
		}
	}
	return []callRes{{st, r}}
}

// sepCount: number of occurrences of a constant one-byte separator in s (exact for literal segments,
// an uninterpreted function of the string identity for symbolic inputs).
func (e *Exec) sepCount(st *State, s, sep *StringVal) (*Term, bool) {
	c := e.C
	lit, ok := concreteString(sep)
	if !ok || len(lit) != 1 {
		return nil, false
	}
	b := lit[0]
	if s.Tag != nil {
		total := e.idx(0)
		for _, sg := range s.Tag.Segs {
			switch sg.Kind {
			case "lit":
				n := 0
				for i := 0; i < len(sg.Lit); i++ {
					if sg.Lit[i] == b {
						n++
					}
				}
				total = c.Add(total, e.idx(int64(n)))
			case "str":
				sub, ok := e.sepCount(st, sg.S, sep)
				if !ok {
					return nil, false
				}
				total = c.Add(total, sub)
			default:
				isHexish := (b >= '0' && b <= '9') || (b >= 'a' && b <= 'f') || (b >= 'A' && b <= 'F') || b == '-'
				if isHexish {
					return nil, false
				}
			}
		}
		return total, true
	}
	if str, ok := concreteString(s); ok {
		n := 0
		for i := 0; i < len(str); i++ {
			if str[i] == b {
				n++
			}
		}
		return e.idx(int64(n)), true
	}
	var cnt *Term
	if id := e.strIdent(s); id != nil {
		cnt = c.App(fmt.Sprintf("sepcount_%02x", b), e.idxSort(), id...)
	} else {
		cnt = c.Fresh("sepcount", e.idxSort())
	}
	st.assume(e.leIdx(cnt, s.Len))
	if e.IntMode {
		st.assume(c.ILe(c.Inti(0), cnt))
	}
	return cnt, true
}

func intrContains(e *Exec, st *State, fr *Frame, args []Val, in ssa.Instruction, rt types.Type) []callRes {
	s, ok1 := args[0].(*StringVal)
	sep, ok2 := args[1].(*StringVal)
	if ok1 && ok2 {
		if sepS, isC := concreteString(sep); isC && len(sepS) == 1 && s.Tag == nil {
			if sh, ok := e.knownShape(st, s); ok {
				decided, found := true, false
				for i := range sh {
					if sh[i].lit == int(sepS[0]) {
						found = true
					} else if sh[i].set[sepS[0]] {
						decided = false
					}
				}
				if found || decided {
					return []callRes{{st, e.C.Bool(found)}}
				}
			}
		}
		if cnt, ok := e.sepCount(st, s, sep); ok {
			return []callRes{{st, e.leIdx(e.idx(1), cnt)}}
		}
	}
	return intrFreshBool(e, st, fr, args, in, rt)
}

func intrSplitN(e *Exec, st *State, fr *Frame, args []Val, in ssa.Instruction, rt types.Type) []callRes {
	// SplitN(s, sep, 2) with a constant one-byte separator, exact: either sep does not occur (one part, s),
	// or the parts are what precedes and what follows its first occurrence.
	if s, ok := args[0].(*StringVal); ok {
		if sep, ok := args[1].(*StringVal); ok {
			if lit, isC := concreteString(sep); isC && len(lit) == 1 {
				if nn, ok := args[2].(*Term); ok && nn.IsConst() && nn.SInt().Int64() == 2 {
					c := e.C
					elem := rt.Underlying().(*types.Slice).Elem()
					sepT := c.NumConst(big.NewInt(int64(lit[0])), e.elemSort(types.Typ[types.Uint8]))
					mk := func(st *State, parts []Val) Val {
						n := e.idx(int64(len(parts)))
						id := e.newObj(st, &ArrayVal{ElemT: elem, Len: n, List: parts}, &ObjMeta{T: types.NewArray(elem, int64(len(parts))), Fresh: true})
						return &SliceVal{Obj: id, Off: e.idx(0), Len: n, Cap: n, Nil: c.False(), ElemT: elem}
					}
					// outcome 1: no separator
					st1 := st.clone()
					k1 := c.Var(c.FreshName("k"), e.idxSort())
					st1.assume(c.Forall([]*Term{k1}, c.Implies(e.inRange(k1, s.Len), c.Not(c.Eq(e.sel(s.C, c.Add(s.Off, k1)), sepT)))))
					// outcome 2: first separator at idx
					st2 := st.clone()
					idx := c.Fresh("splitn.idx", e.idxSort())
					st2.assume(c.And(e.nonNeg(idx), e.ltIdx(idx, s.Len)))
					st2.assume(c.Eq(e.sel(s.C, c.Add(s.Off, idx)), sepT))
					k2 := c.Var(c.FreshName("k"), e.idxSort())
					st2.assume(c.Forall([]*Term{k2}, c.Implies(e.inRange(k2, idx), c.Not(c.Eq(e.sel(s.C, c.Add(s.Off, k2)), sepT)))))
					p0 := &StringVal{C: s.C, Off: s.Off, Len: idx}
					p1 := &StringVal{C: s.C, Off: c.Add(c.Add(s.Off, idx), e.idx(1)), Len: c.Sub(c.Sub(s.Len, idx), e.idx(1))}
					var out []callRes
					if !st1.Dead {
						out = append(out, callRes{st1, mk(st1, []Val{s})})
					}
					if !st2.Dead {
						out = append(out, callRes{st2, mk(st2, []Val{p0, p1})})
					}
					return out
				}
			}
		}
	}
	_, _, sl := e.seqOfVal(st, args[0])
	elem := rt.Underlying().(*types.Slice).Elem()
	n := args[2].(*Term)
	c := e.C
	r := e.splitResult(st, elem, "splitn", 0, c.Add(sl, e.idx(1)), sl)
	// n > 0: at most n substrings; n == 0: nil; n < 0: all
	st.assume(c.Implies(c.Lt(zeroOf(c, n.S), n, true), c.And(e.leIdx(r.Len, e.toIdx(n, types.Typ[types.Int])), e.leIdx(e.idx(1), r.Len))))
	st.assume(c.Implies(c.Eq(n, zeroOf(c, n.S)), c.Eq(r.Len, e.idx(0))))
	st.assume(c.Implies(c.Lt(n, zeroOf(c, n.S), true), e.leIdx(e.idx(1), r.Len)))
	return []callRes{{st, r}}
}

func intrFields(e *Exec, st *State, fr *Frame, args []Val, in ssa.Instruction, rt types.Type) []callRes {
	_, _, sl := e.seqOfVal(st, args[0])
	elem := rt.Underlying().(*types.Slice).Elem()
	r := e.splitResult(st, elem, "fields", 0, sl, sl)
	return []callRes{{st, r}}
}

// trimSide: TrimLeft / TrimRight with a constant cutset, exact: the result is the window that remains after
// removing the maximal run of cutset bytes at that end (bytes; a cutset with non-ASCII runes is not modelled).
func (e *Exec) trimSide(st *State, sc ArrC, off, n *Term, cutset string, left bool) (*Term, *Term) {
	c := e.C
	inSet := func(b *Term) *Term {
		r := c.False()
		for i := 0; i < len(cutset); i++ {
			r = c.Or(r, c.Eq(b, c.NumConst(big.NewInt(int64(cutset[i])), b.S)))
		}
		return r
	}
	cut := c.Fresh("trimcut", e.idxSort()) // number of bytes removed
	st.assume(c.And(e.nonNeg(cut), e.leIdx(cut, n)))
	k := c.Var(c.FreshName("k"), e.idxSort())
	if left {
		// bytes [0,cut) are in the set; byte cut (if any) is not
		st.assume(c.Forall([]*Term{k}, c.Implies(e.inRange(k, cut), inSet(e.sel(sc, c.Add(off, k))))))
		st.assume(c.Or(c.Eq(cut, n), c.Not(inSet(e.sel(sc, c.Add(off, cut))))))
		return c.Add(off, cut), c.Sub(n, cut)
	}
	// bytes [n-cut,n) are in the set; byte n-cut-1 (if any) is not
	st.assume(c.Forall([]*Term{k}, c.Implies(e.inRange(k, cut), inSet(e.sel(sc, c.Add(off, c.Sub(c.Sub(n, e.idx(1)), k)))))))
	st.assume(c.Or(c.Eq(cut, n), c.Not(inSet(e.sel(sc, c.Add(off, c.Sub(c.Sub(n, e.idx(1)), cut)))))))
	return off, c.Sub(n, cut)
}

func asciiOnly(s string) bool {
	for i := 0; i < len(s); i++ {
		if s[i] >= 0x80 {
			return false
		}
	}
	return true
}

func intrTrimSide(left bool) func(e *Exec, st *State, fr *Frame, args []Val, in ssa.Instruction, rt types.Type) []callRes {
	return func(e *Exec, st *State, fr *Frame, args []Val, in ssa.Instruction, rt types.Type) []callRes {
		cs, ok := args[1].(*StringVal)
		if ok {
			if cutset, isC := concreteString(cs); isC && asciiOnly(cutset) {
				switch s := args[0].(type) {
				case *StringVal:
					if str, isC := concreteString(s); isC {
						if left {
							return []callRes{{st, e.strConst(strings.TrimLeft(str, cutset))}}
						}
						return []callRes{{st, e.strConst(strings.TrimRight(str, cutset))}}
					}
					off, n := e.trimSide(st, s.C, s.Off, s.Len, cutset, left)
					return []callRes{{st, &StringVal{C: s.C, Off: off, Len: n}}}
				case *SliceVal:
					if s.Obj != 0 {
						av := e.sliceBacking(st, s)
						if av.Scalar {
							off, n := e.trimSide(st, av.C, s.Off, s.Len, cutset, left)
							return []callRes{{st, &SliceVal{Obj: s.Obj, Path: s.Path, Off: off, Len: n, Cap: e.C.Sub(s.Cap, e.C.Sub(off, s.Off)), Nil: s.Nil, ElemT: s.ElemT}}}
						}
					}
				}
			}
		}
		return intrTrimWindow(e, st, fr, args, in, rt)
	}
}

// Trim family: the result is a sub-window of the input.
func intrTrimWindow(e *Exec, st *State, fr *Frame, args []Val, in ssa.Instruction, rt types.Type) []callRes {
	c := e.C
	a := c.Fresh("trim.lo", e.idxSort())
	b := c.Fresh("trim.hi", e.idxSort())
	switch s := args[0].(type) {
	case *StringVal:
		st.assume(c.And(e.leIdx(a, b), e.leIdx(b, s.Len)))
		return []callRes{{st, &StringVal{C: s.C, Off: c.Add(s.Off, a), Len: c.Sub(b, a)}}}
	case *SliceVal:
		st.assume(c.And(e.leIdx(a, b), e.leIdx(b, s.Len)))
		return []callRes{{st, &SliceVal{Obj: s.Obj, Path: s.Path, Off: c.Add(s.Off, a), Len: c.Sub(b, a), Cap: c.Sub(s.Cap, a), Nil: s.Nil, ElemT: s.ElemT}}}
	}
	e.bail("trim of %T", args[0])
	return nil
}

func intrIndexOf(e *Exec, st *State, fr *Frame, args []Val, in ssa.Instruction, rt types.Type) []callRes {
	return intrIndexOfStrict(false)(e, st, fr, args, in, rt)
}

// intrIndexOfStrict: the result is -1 or an index into the haystack; for a search of a single byte / rune / set the
// index is strictly below the length, for a substring (which may be empty) it may equal the length.
func intrIndexOfStrict(strict bool) func(e *Exec, st *State, fr *Frame, args []Val, in ssa.Instruction, rt types.Type) []callRes {
	return func(e *Exec, st *State, fr *Frame, args []Val, in ssa.Instruction, rt types.Type) []callRes {
		c := e.C
		_, _, sl := e.seqOfVal(st, args[0])
		r := c.Fresh("index", e.idxSort())
		minus1 := e.idx(-1)
		hi := sl
		if !strict {
			hi = c.Add(sl, e.idx(1))
		}
		if !e.IntMode {
			st.assume(c.Or(c.Eq(r, minus1), c.ULt(r, hi)))
		} else {
			st.assume(c.Or(c.Eq(r, minus1), c.And(c.ILe(c.Inti(0), r), c.ILt(r, hi))))
		}
		return []callRes{{st, r}}
	}
}

func init() {
	intrinsics["strings.Split"] = intrSplit
	intrinsics["bytes.Split"] = intrSplit
	intrinsics["strings.SplitN"] = intrSplitN
	intrinsics["strings.Fields"] = intrFields
	for _, n := range []string{"strings.Trim", "bytes.Trim", "bytes.TrimSpace"} {
		intrinsics[n] = intrTrimWindow
	}
	intrinsics["strings.TrimRight"] = intrTrimSide(false)
	intrinsics["bytes.TrimRight"] = intrTrimSide(false)
	intrinsics["strings.TrimLeft"] = intrTrimSide(true)
	intrinsics["bytes.TrimLeft"] = intrTrimSide(true)
	for _, n := range []string{"strings.Index", "strings.LastIndex", "bytes.Index"} {
		intrinsics[n] = intrIndexOfStrict(false)
	}
	for _, n := range []string{"strings.IndexByte", "bytes.IndexByte", "strings.IndexRune", "strings.IndexAny"} {
		intrinsics[n] = intrIndexOfStrict(true)
	}
}

// ---- constructors of stdlib interface values: non-nil opaque results; base64 length relations ----

func nonNilIface(withErr bool) intrinsic {
	return func(e *Exec, st *State, fr *Frame, args []Val, in ssa.Instruction, rt types.Type) []callRes {
		c := e.C
		v := &IfaceVal{Opaque: true, IsNil: c.False(), ID: c.Fresh("obj", BV(64))}
		if !withErr {
			return []callRes{{st, v}}
		}
		okb := c.Fresh("ctor.ok", BoolS)
		v.IsNil = c.Not(okb)
		return []callRes{{st, TupleVal{v, &IfaceVal{Opaque: true, IsNil: okb, ID: c.Fresh("errid", BV(64))}}}}
	}
}

func intrB64Decode(e *Exec, st *State, fr *Frame, args []Val, in ssa.Instruction, rt types.Type) []callRes {
	s := args[len(args)-1].(*StringVal)
	c := e.C
	out := e.freshSliceObj(st, types.Typ[types.Uint8], "b64dec")
	e.metaAll[out.Obj].Growable = false
	st.assume(e.leIdx(out.Len, s.Len))
	okb := c.Fresh("b64.ok", BoolS)
	return []callRes{{st, TupleVal{out, &IfaceVal{Opaque: true, IsNil: okb, ID: c.Fresh("errid", BV(64))}}}}
}

func intrB64Encode(e *Exec, st *State, fr *Frame, args []Val, in ssa.Instruction, rt types.Type) []callRes {
	_, _, sl := e.seqOfVal(st, args[len(args)-1])
	r := e.freshString(st, "b64enc", 0)
	if !e.IntMode {
		// 4*ceil(n/3) <= 2n+4
		st.assume(e.leIdx(r.Len, e.C.Add(e.C.Mul(sl, e.idx(2)), e.idx(4))))
	}
	return []callRes{{st, r}}
}

func init() {
	intrinsics["crypto/cipher.NewCBCDecrypter"] = nonNilIface(false)
	intrinsics["crypto/cipher.NewCBCEncrypter"] = nonNilIface(false)
	intrinsics["crypto/aes.NewCipher"] = nonNilIface(true)
	intrinsics["crypto/des.NewCipher"] = nonNilIface(true)
	intrinsics["crypto/sha256.New"] = nonNilIface(false)
	intrinsics["crypto/sha1.New"] = nonNilIface(false)
	intrinsics["crypto/md5.New"] = nonNilIface(false)
	intrinsics["crypto/hmac.New"] = nonNilIface(false)
	intrinsics["(*encoding/base64.Encoding).DecodeString"] = intrB64Decode
	intrinsics["(*encoding/base64.Encoding).EncodeToString"] = intrB64Encode
}

// ---- unicode/utf16: uninterpreted transcoding with length relations ----

func intrUTF16Decode(e *Exec, st *State, fr *Frame, args []Val, in ssa.Instruction, rt types.Type) []callRes {
	s := args[0].(*SliceVal)
	// code units of concrete count, none provably a surrogate: one code point each (RFC 2781 2.2)
	if s.Len.IsConst() && s.Len.C.IsInt64() && s.Len.C.Int64() <= 256 && (s.Obj != 0 || s.Len.C.Sign() == 0) && s.Off.IsConst() {
		n := int(s.Len.C.Int64())
		us := make([]*Term, n)
		goal := e.C.True()
		if n > 0 {
			av := e.sliceBacking(st, s)
			for i := range us {
				us[i] = e.sel(av.C, e.C.Add(s.Off, e.idx(int64(i))))
				if e.IntMode {
					goal = e.C.And(goal, e.C.Or(e.C.ILt(us[i], e.C.Inti(0xD800)), e.C.ILt(e.C.Inti(0xDFFF), us[i])))
				} else {
					goal = e.C.And(goal, e.C.Or(e.C.ULt(us[i], e.C.BVu(0xD800, 16)), e.C.ULt(e.C.BVu(0xDFFF, 16), us[i])))
				}
			}
		}
		if goal.IsTrue() || (!goal.IsFalse() && e.quickValid(st, goal)) {
			es := e.elemSort(types.Typ[types.Int32])
			vals := make([]*Term, n)
			for i, u := range us {
				if e.IntMode {
					vals[i] = u
				} else {
					vals[i] = e.C.ZExt(u, 32)
				}
			}
			r := e.constScalarSlice(st, types.Typ[types.Int32], make([]int64, n), "utf16dec")
			if n > 0 {
				rav := e.sliceBacking(st, r)
				nav := *rav
				nav.C = &ArrLit{Vals: vals, Rest: &ArrFill{Val: e.C.NumConst(big.NewInt(0), es)}}
				st.Heap[r.Obj] = &nav
			}
			return []callRes{{st, r}}
		}
	}
	out := e.freshSliceObj(st, types.Typ[types.Int32], "utf16dec")
	e.metaAll[out.Obj].Growable = false
	st.assume(e.leIdx(out.Len, s.Len))
	st.assume(e.C.Eq(out.Cap, out.Len))
	return []callRes{{st, out}}
}

func intrUTF16Encode(e *Exec, st *State, fr *Frame, args []Val, in ssa.Instruction, rt types.Type) []callRes {
	s := args[0].(*SliceVal)
	if vals, ok := e.concreteScalarSlice(st, s); ok {
		// constant code points: RFC 2781 2.1, exactly (evaluated by unicode/utf16 of the verifier's own Go runtime)
		rs := make([]rune, len(vals))
		for i, v := range vals {
			rs[i] = rune(v)
		}
		var out []int64
		for _, u := range utf16.Encode(rs) {
			out = append(out, int64(u))
		}
		return []callRes{{st, e.constScalarSlice(st, types.Typ[types.Uint16], out, "utf16enc")}}
	}
	// code points of concrete count, all provably in [0, 0xD800): one code unit each (RFC 2781 2.1)
	if s.Obj != 0 && s.Len.IsConst() && s.Off.IsConst() && s.Len.C.IsInt64() && s.Len.C.Int64() <= 256 {
		av := e.sliceBacking(st, s)
		n := int(s.Len.C.Int64())
		rs := make([]*Term, n)
		goal := e.C.True()
		for i := range rs {
			rs[i] = e.sel(av.C, e.C.Add(s.Off, e.idx(int64(i))))
			if e.IntMode {
				goal = e.C.And(goal, e.C.ILe(e.C.Inti(0), rs[i]), e.C.ILt(rs[i], e.C.Inti(0xD800)))
			} else {
				goal = e.C.And(goal, e.C.ULt(rs[i], e.C.BVu(0xD800, 32)))
			}
		}
		if goal.IsTrue() || (!goal.IsFalse() && e.quickValid(st, goal)) {
			es := e.elemSort(types.Typ[types.Uint16])
			vals := make([]*Term, n)
			for i, r := range rs {
				if e.IntMode {
					vals[i] = r
				} else {
					vals[i] = e.C.Extract(15, 0, r)
				}
			}
			r := e.constScalarSlice(st, types.Typ[types.Uint16], make([]int64, n), "utf16enc")
			if n > 0 {
				rav := e.sliceBacking(st, r)
				nav := *rav
				nav.C = &ArrLit{Vals: vals, Rest: &ArrFill{Val: e.C.NumConst(big.NewInt(0), es)}}
				st.Heap[r.Obj] = &nav
			}
			return []callRes{{st, r}}
		}
	}
	out := e.freshSliceObj(st, types.Typ[types.Uint16], "utf16enc")
	e.metaAll[out.Obj].Growable = false
	if !e.IntMode {
		st.assume(e.leIdx(out.Len, e.C.Mul(s.Len, e.idx(2))))
		st.assume(e.leIdx(s.Len, out.Len))
	}
	st.assume(e.C.Eq(out.Cap, out.Len))
	return []callRes{{st, out}}
}

func init() {
	intrinsics["unicode/utf16.Decode"] = intrUTF16Decode
	intrinsics["unicode/utf16.Encode"] = intrUTF16Encode
}

// strings.Join on a concrete list of concrete strings is evaluated exactly; otherwise the result is abstract.
func intrJoin(e *Exec, st *State, fr *Frame, args []Val, in ssa.Instruction, rt types.Type) []callRes {
	l, ok := args[0].(*SliceVal)
	sep, ok2 := args[1].(*StringVal)
	if ok && ok2 {
		if l.Obj == 0 || (l.Len.IsConst() && l.Len.C.Sign() == 0) {
			return []callRes{{st, e.strConst("")}}
		}
		av := e.sliceBacking(st, l)
		sepS, sepOK := concreteString(sep)
		if av.Conds != nil && sepOK {
			// conditional list of literals: the result is described by its segments (contents abstract)
			var items []CondItem
			okAll := true
			for i, v := range av.List {
				sv, isS := v.(*StringVal)
				if !isS {
					okAll = false
					break
				}
				cs, isC := concreteString(sv)
				if !isC {
					okAll = false
					break
				}
				items = append(items, CondItem{Cond: av.Conds[i], Lit: cs})
			}
			if okAll {
				r := e.freshString(st, "condjoin", 0)
				r.Tag = &StrTag{Segs: []StrSeg{{Kind: "condjoin", Lit: sepS, Items: items, Unordered: av.Unordered}}}
				// the result is empty iff no element is present
				none := e.C.True()
				for _, it := range items {
					none = e.C.And(none, e.C.Not(it.Cond))
				}
				st.assume(e.C.Eq(e.C.Eq(r.Len, e.idx(0)), none))
				return []callRes{{st, r}}
			}
		}
		if av.List != nil && av.Conds == nil && l.Off.IsConst() && l.Len.IsConst() && sepOK {
			o, n := int(l.Off.C.Int64()), int(l.Len.C.Int64())
			var parts []string
			all := true
			var res *StringVal
			for i := o; i < o+n; i++ {
				sv, isS := av.List[i].(*StringVal)
				if !isS {
					all = false
					break
				}
				if cs, isC := concreteString(sv); isC {
					parts = append(parts, cs)
				} else {
					all = false
				}
				if res == nil {
					res = sv
				} else {
					res = e.strConcat(st, e.strConcat(st, res, sep), sv)
				}
			}
			if all && av.Unordered {
				var items []CondItem
				for _, p := range parts {
					items = append(items, CondItem{Cond: e.C.True(), Lit: p})
				}
				r := e.freshString(st, "unorderedjoin", 0)
				r.Tag = &StrTag{Segs: []StrSeg{{Kind: "condjoin", Lit: sepS, Items: items, Unordered: true}}}
				return []callRes{{st, r}}
			}
			if all {
				joined := ""
				for i, p := range parts {
					if i > 0 {
						joined += sepS
					}
					joined += p
				}
				return []callRes{{st, e.strConst(joined)}}
			}
			if res != nil && n <= 32 {
				return []callRes{{st, res}}
			}
		}
	}
	e.noteAbstract(st, "strings.Join on a symbolic list")
	return []callRes{{st, e.freshString(st, "join", 0)}}
}

func init() {
	intrinsics["strings.Join"] = intrJoin
}

// sort.Strings on a (conditional) list of literals: reorders the entries; clears the unordered mark.
func intrSortStrings(e *Exec, st *State, fr *Frame, args []Val, in ssa.Instruction, rt types.Type) []callRes {
	l, ok := args[0].(*SliceVal)
	if !ok || l.Obj == 0 {
		return []callRes{{st, nil}}
	}
	av := e.sliceBacking(st, l)
	if av.List == nil || !l.Off.IsConst() || l.Off.C.Sign() != 0 {
		e.noteAbstract(st, "sort.Strings on a symbolic list")
		return []callRes{{st, nil}}
	}
	n := len(av.List)
	if av.Conds == nil {
		if !l.Len.IsConst() || int(l.Len.C.Int64()) != n {
			e.bail("sort.Strings on a sub-slice")
		}
	}
	type ent struct {
		s string
		v Val
		c *Term
	}
	es := make([]ent, n)
	for i, v := range av.List {
		sv, isS := v.(*StringVal)
		if !isS {
			e.bail("sort.Strings: non-string element")
		}
		cs, isC := concreteString(sv)
		if !isC {
			e.noteAbstract(st, "sort.Strings on symbolic strings")
			return []callRes{{st, nil}}
		}
		es[i] = ent{cs, v, nil}
		if av.Conds != nil {
			es[i].c = av.Conds[i]
		}
	}
	sort.SliceStable(es, func(i, j int) bool { return es[i].s < es[j].s })
	nav := &ArrayVal{ElemT: av.ElemT, Len: av.Len, List: make([]Val, n)}
	if av.Conds != nil {
		nav.Conds = make([]*Term, n)
	}
	for i, x := range es {
		nav.List[i] = x.v
		if nav.Conds != nil {
			nav.Conds[i] = x.c
		}
	}
	e.storeBacking(st, l, nav)
	return []callRes{{st, nil}}
}

func init() {
	intrinsics["sort.Strings"] = intrSortStrings
}
