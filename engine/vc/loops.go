package vc

import (
	"os"
	"path/filepath"
	"runtime"
	"math/big"
	"strings"
	"fmt"
	"go/token"
	"go/types"
	"sort"
	"sync"
	"time"

	"golang.org/x/tools/go/ssa"
)

type loopInfo struct {
	headers map[*ssa.BasicBlock]bool
	body    map[*ssa.BasicBlock]map[*ssa.BasicBlock]bool // header -> natural loop body
	ordinal map[*ssa.BasicBlock]int                      // header -> ordinal in block order
	inner   map[*ssa.BasicBlock]*ssa.BasicBlock          // block -> innermost header
}

func (e *Exec) loops(fn *ssa.Function) *loopInfo {
	if li, ok := e.loopsCache[fn]; ok {
		return li
	}
	li := &loopInfo{headers: map[*ssa.BasicBlock]bool{}, body: map[*ssa.BasicBlock]map[*ssa.BasicBlock]bool{}, ordinal: map[*ssa.BasicBlock]int{}, inner: map[*ssa.BasicBlock]*ssa.BasicBlock{}}
	for _, b := range fn.Blocks {
		for _, s := range b.Succs {
			if s.Dominates(b) {
				// back edge b -> s
				li.headers[s] = true
				body := li.body[s]
				if body == nil {
					body = map[*ssa.BasicBlock]bool{s: true}
					li.body[s] = body
				}
				// natural loop: all nodes that reach b without going through s
				stack := []*ssa.BasicBlock{b}
				for len(stack) > 0 {
					x := stack[len(stack)-1]
					stack = stack[:len(stack)-1]
					if body[x] {
						continue
					}
					body[x] = true
					for _, p := range x.Preds {
						stack = append(stack, p)
					}
				}
			}
		}
	}
	n := 0
	for _, b := range fn.Blocks {
		if li.headers[b] {
			li.ordinal[b] = n
			n++
		}
	}
	// innermost header per block: the header with the smallest body containing the block
	for _, b := range fn.Blocks {
		best := -1
		for h, body := range li.body {
			if body[b] && (best < 0 || len(body) < best) {
				best = len(body)
				li.inner[b] = h
			}
		}
	}
	e.loopsCache[fn] = li
	return li
}

// CutInfo describes an active loop cut on a path.
type CutInfo struct {
	Header   *ssa.BasicBlock
	Dry      bool
	Phis     []*ssa.Phi
	HeadVals []Val // havoc'd phi values at header
	Cands    []*cand
	UserInvs []*LoopClause
	OnBack   func(st *State, fr *Frame, prev *ssa.BasicBlock, backVals []Val)
	Measures []measure
}

type cand struct {
	desc  string
	eval  func(st *State, vals []Val) *Term // over the state and the phi values
	alive bool
}

type measure struct {
	phi  int
	up   bool // p increases towards a bound
	len  bool // slice length decreases
	desc string
}

func (e *Exec) noteSymbolicBranch(fr *Frame, blk *ssa.BasicBlock) {
	li := e.loops(fr.Fn)
	h := li.inner[blk]
	for h != nil {
		body := li.body[h]
		exit := false
		for _, s := range blk.Succs {
			if !body[s] {
				exit = true
			}
		}
		if exit {
			e.symExit[h] = true
		}
		// outer loop: find next enclosing header
		var outer *ssa.BasicBlock
		best := -1
		for h2, b2 := range li.body {
			if h2 != h && b2[h] && len(b2) > len(body) && (best < 0 || len(b2) < best) {
				best = len(b2)
				outer = h2
			}
		}
		h = outer
	}
}

func (e *Exec) phisOf(h *ssa.BasicBlock) []*ssa.Phi {
	var phis []*ssa.Phi
	for _, in := range h.Instrs {
		ph, ok := in.(*ssa.Phi)
		if !ok {
			break
		}
		phis = append(phis, ph)
	}
	return phis
}

func predIndex(h, prev *ssa.BasicBlock) int {
	for k, p := range h.Preds {
		if p == prev {
			return k
		}
	}
	return -1
}

// enterHeader handles arrival at a loop header. Returns cont=false when the path ends here.
func (e *Exec) enterHeader(st *State, fr *Frame, h, prev *ssa.BasicBlock) (bool, []work) {
	isBack := prev != nil && h.Dominates(prev)
	if fr.Cuts != nil {
		if cut := fr.Cuts[h]; cut != nil {
			if isBack {
				e.backEdge(st, fr, h, prev, cut)
				return false, nil
			}
		}
	}
	li := e.loops(fr.Fn)
	key := loopKey{fr.Fn, li.ordinal[h]}
	// a loop with user clauses is cut at its header when its function is the one under verification; inside an
	// expanded callee it is first tried unrolled (its clauses speak about the callee's own entry state) and cut only
	// when its trip count turns out to be symbolic
	if !isBack && (e.cutHeaders[key] || (fr.Depth == 0 && e.W.hasLoopClauses(fr.Fn, li.ordinal[h]))) && !e.W.forceUnroll(fr.Fn, li.ordinal[h]) {
		e.startCut(st, fr, h, prev)
		return !st.Dead, nil
	}
	// unroll mode
	e.evalPhis(st, fr, h, prev)
	if fr.Iter == nil {
		fr.Iter = map[*ssa.BasicBlock]int{}
	}
	if !isBack {
		fr.Iter[h] = 0
	}
	fr.Iter[h]++
	limit := 5000
	if n := e.W.unrollLimit(fr.Fn, li.ordinal[h]); n > 0 {
		limit = n
	} else if e.symExit[h] {
		limit = 40
	}
	if isBack && fr.Iter[h] >= 2 && fr.Iter[h] <= limit && e.W.forceUnroll(fr.Fn, li.ordinal[h]) && st.Record == nil {
		// a bounded loop in an expanded callee: paths that contradict themselves would otherwise be carried to the
		// bound, each forking further on the way
		if e.quickValid(st, e.C.False()) {
			st.Dead = true
			return false, nil
		}
	}
	if fr.Iter[h] > limit {
		if e.W.forceUnroll(fr.Fn, li.ordinal[h]) {
			// the path may simply be infeasible (its condition contradicts what earlier iterations established)
			if e.quickValid(st, e.C.False()) {
				st.Dead = true
				return false, nil
			}
			e.bail("loop %d of %s exceeds unroll bound %d", li.ordinal[h], fr.Fn, limit)
		}
		panic(restartCut{key})
	}
	return true, nil
}

type loopKey struct {
	fn  *ssa.Function
	ord int
}

// startCut: cut the loop at header h using invariants (user-provided + synthesised).
func (e *Exec) startCut(st *State, fr *Frame, h, prev *ssa.BasicBlock) {
	li := e.loops(fr.Fn)
	ord := li.ordinal[h]
	body := li.body[h]
	phis := e.phisOf(h)
	pi := predIndex(h, prev)
	entry := make([]Val, len(phis))
	for k, ph := range phis {
		entry[k] = e.val(st, fr, ph.Edges[pi])
	}
	user := e.usableClauses(st, fr, e.W.loopClauses(fr.Fn, ord), phis, entry)
	desc := fmt.Sprintf("%s loop %d", fnShort(fr.Fn), ord)

	// 1. user invariants must hold on entry
	for _, u := range user {
		if u.Kind != "invariant" {
			continue
		}
		g := e.evalLoopClause(st, fr, u, phis, entry)
		e.obligeL(st, "inv-init", fmt.Sprintf("%s: %s", desc, u.Text), token.Position{}, g, u.Props)
	}

	// 2. dry runs: write set + phi re-pointing + Houdini over candidates
	cands := e.synthCandidates(st, fr, h, phis, entry, body)
	// candidates refuted in an earlier visit of this loop (nested loops are re-entered on every dry run of
	// the enclosing loop) are not tried again: dropping a candidate only weakens what is assumed
	{
		key := loopKey{fr.Fn, ord}
		if e.deadCands == nil {
			e.deadCands = map[loopKey]map[string]bool{}
		}
		dead := e.deadCands[key]
		if dead == nil {
			dead = map[string]bool{}
			e.deadCands[key] = dead
		}
		for _, cd := range cands {
			if dead[cd.desc] {
				cd.alive = false
			}
		}
		defer func() {
			for _, cd := range cands {
				if !cd.alive {
					dead[cd.desc] = true
				}
			}
		}()
	}
	// init filter for candidates
	{
		var pend []*cand
		var goals []*Term
		for _, cd := range cands {
			g := cd.eval(st, entry)
			if g.IsTrue() {
				continue
			}
			if g.IsFalse() {
				cd.alive = false
				continue
			}
			pend = append(pend, cd)
			goals = append(goals, g)
		}
		oks := e.quickValidMany(st, goals)
		for i, cd := range pend {
			if !oks[i] {
				cd.alive = false
			}
		}
	}
	var arrivals []*arrival
	writes := map[int]map[string][]PathElem{}
	repoint := map[int]bool{}
	cellCand := map[string]bool{}
	deltas := map[int]*Term{}
	nonConstDelta := map[int]bool{}
	measures := e.synthMeasures(fr, h, phis, body)
	wantFill := !e.SafetyOnly
	for _, u := range user {
		if u.Kind == "invariant" {
			wantFill = false
		}
	}
	preNames := map[string]bool{}
	for n := range e.C.Decls {
		preNames[n] = true
	}
	for round := 0; round < 8; round++ {
		changed := false
		s2 := st.clone()
		s2.Record = &WriteRec{Objs: map[int]bool{}}
		f2 := fr.clone()
		head := e.havocLoopState(s2, f2, h, phis, entry, writes, repoint, desc)
		headRoots := map[int]Val{}
		for id := range writes {
			if r, ok := s2.Heap[id]; ok {
				headRoots[id] = r
			}
		}
		for _, u := range user {
			if u.Kind == "invariant" {
				s2.assume(e.evalLoopClause(s2, f2, u, phis, head))
			}
		}
		for _, cd := range cands {
			if cd.alive {
				g := cd.eval(s2, head)
				if g.IsFalse() {
					// contradicts the shape of the havoc'd state (e.g. a re-pointed slice): not an invariant
					cd.alive = false
					changed = true
					continue
				}
				s2.assume(g)
			}
		}
		var newFill []*cand
		cut := &CutInfo{Header: h, Dry: true, Phis: phis, HeadVals: head}
		cut.OnBack = func(bs *State, bf *Frame, bprev *ssa.BasicBlock, back []Val) {
			for k := range phis {
				if sv, ok := back[k].(*SliceVal); ok {
					hv := head[k].(*SliceVal)
					if sv.Obj != hv.Obj && !repoint[k] {
						repoint[k] = true
						changed = true
					}
				}
				if pv, ok := back[k].(*PtrVal); ok {
					hv, _ := head[k].(*PtrVal)
					if hv != nil && pv.Obj != hv.Obj {
						e.bail("loop-carried pointer changes target in %s", desc)
					}
				}
			}
			if changed {
				return
			}
			for k := range phis {
				hb, ok1 := head[k].(*Term)
				bb, ok2 := back[k].(*Term)
				if !ok1 || !ok2 || !isIntType(phis[k].Type()) || nonConstDelta[k] {
					continue
				}
				d := e.C.Sub(bb, hb)
				if !d.IsConst() {
					nonConstDelta[k] = true
					continue
				}
				if prev, have := deltas[k]; have && prev != d {
					nonConstDelta[k] = true
					continue
				}
				deltas[k] = d
			}
			// proposed now, assumed at the loop head from the next round on (this pass did not assume them)
			// (only for loops without a usable hand-written invariant, and not in safety-only sweeps: the quantified
			// step checks are the expensive ones, and an undecided one costs its whole time budget)
			if wantFill {
				newFill = append(newFill, e.fillCandidates(st, bs, phis, entry, head, headRoots, writes, deltas, nonConstDelta, preNames, cellCand)...)
			}
			arr := &arrival{st: bs}
			for _, cd := range cands {
				if !cd.alive {
					continue
				}
				g := cd.eval(bs, back)
				if g.IsTrue() {
					continue
				}
				if g.IsFalse() {
					cd.alive = false
					changed = true
					continue
				}
				arr.pend = append(arr.pend, cd)
				arr.goals = append(arr.goals, g)
			}
			if len(arr.goals) > 0 {
				arrivals = append(arrivals, arr)
			}
		}
		if f2.Cuts == nil {
			f2.Cuts = map[*ssa.BasicBlock]*CutInfo{}
		}
		f2.Cuts[h] = cut
		f2.Region = body
		arrivals = nil
		e.runRegion(s2, f2, h)
		// check all back-edge arrivals: conjunctions first (in parallel), individual goals only where that fails
		if len(arrivals) > 0 {
			conj := make([]*Term, len(arrivals))
			sts := make([]*State, len(arrivals))
			for i, a := range arrivals {
				conj[i] = e.C.And(a.goals...)
				sts[i] = a.st
			}
			okc := e.quickValidEach(sts, conj)
			for i, a := range arrivals {
				if okc[i] {
					continue
				}
				oks := e.quickValidMany(a.st, a.goals)
				for j, cd := range a.pend {
					if !oks[j] && cd.alive {
						cd.alive = false
						changed = true
					}
				}
			}
		}
		if len(newFill) > 0 {
			cands = append(cands, newFill...)
			changed = true
		}
		for id := range s2.Record.Objs {
			_, inHeap := st.Heap[id]
			_, inMaps := st.Maps[id]
			if !inHeap && !inMaps {
				continue
			}
			if writes[id] == nil {
				writes[id] = map[string][]PathElem{}
				changed = true
			}
			for k, pth := range s2.Record.Paths[id] {
				if _, have := writes[id][k]; !have {
					writes[id][k] = pth
					changed = true
				}
			}
			if inMaps && len(writes[id]) == 0 {
				writes[id][""] = nil
			}
		}
		// an induction variable of constant stride d, |d| > 1, stays on its stride: (p - p0) mod |d| == 0
		for i := range phis {
			di, ok := deltas[i]
			if !ok || nonConstDelta[i] || isZero(di) {
				continue
			}
			abs := new(big.Int).Abs(di.SInt())
			if abs.Cmp(big.NewInt(1)) <= 0 {
				continue
			}
			key := fmt.Sprintf("stride%d", i)
			if cellCand[key] {
				continue
			}
			cellCand[key] = true
			e0i, oki := entry[i].(*Term)
			if !oki {
				continue
			}
			i := i
			cands = append(cands, &cand{desc: fmt.Sprintf("%s stays on its stride %s", phiName(phis[i]), di.SInt()), alive: true, eval: func(_ *State, v []Val) *Term {
				iv, ok := v[i].(*Term)
				if !ok {
					return e.C.False()
				}
				if iv.S.IsBV() {
					return e.C.Eq(e.C.URem(e.C.Sub(iv, e0i), e.C.BVConst(abs, iv.S.W)), e.C.BVConst(big.NewInt(0), iv.S.W))
				}
				return e.C.Eq(e.C.IMod(e.C.Sub(iv, e0i), e.C.IntConst(abs)), e.C.Inti(0))
			}})
			changed = true
		}
		// linear relations between induction variables with constant strides: dj*(pi-pi0) == di*(pj-pj0)
		for i := range phis {
			for j := range phis {
				if i >= j || nonConstDelta[i] || nonConstDelta[j] {
					continue
				}
				di, ok1 := deltas[i]
				dj, ok2 := deltas[j]
				if !ok1 || !ok2 || di.S != dj.S || isZero(di) || isZero(dj) {
					continue
				}
				key := fmt.Sprintf("lin%d-%d", i, j)
				if cellCand[key] {
					continue
				}
				cellCand[key] = true
				e0i, oki := entry[i].(*Term)
				e0j, okj := entry[j].(*Term)
				if !oki || !okj {
					continue
				}
				i, j, di, dj := i, j, di, dj
				cands = append(cands, &cand{desc: fmt.Sprintf("%s and %s advance in lock-step (%s : %s)", phiName(phis[i]), phiName(phis[j]), di.SInt(), dj.SInt()), alive: true, eval: func(_ *State, v []Val) *Term {
					return e.C.Eq(e.C.Mul(dj, e.C.Sub(v[i].(*Term), e0i)), e.C.Mul(di, e.C.Sub(v[j].(*Term), e0j)))
				}})
				changed = true
			}
		}
		// candidates over written scalar locations (cells / fields)
		for id, paths := range writes {
			if _, isMap := st.Maps[id]; isMap {
				continue
			}
			for k, pth := range paths {
				ck := fmt.Sprintf("%d%s", id, k)
				if cellCand[ck] {
					continue
				}
				cellCand[ck] = true
				ev, ok := e.navigate(st, e.root(st, id), pth).(*Term)
				ty := typeAt(e.meta(id).T, pth)
				if !ok || ty == nil || !isIntType(ty) {
					continue
				}
				id, pth, e0 := id, pth, ev
				signed := isSigned(ty)
				name := fmt.Sprintf("obj%d%s", id, k)
				if m := e.meta(id); m != nil && m.Name != "" {
					name = m.Name + k
				}
				get := func(s *State) *Term { return e.navigate(s, e.root(s, id), pth).(*Term) }
				cands = append(cands, &cand{desc: name + " >= entry", alive: true, eval: func(s *State, _ []Val) *Term { return e.C.Le(e0, get(s), signed) }})
				cands = append(cands, &cand{desc: name + " <= entry", alive: true, eval: func(s *State, _ []Val) *Term { return e.C.Le(get(s), e0, signed) }})
				if signed {
					z := zeroOf(e.C, e0.S)
					cands = append(cands, &cand{desc: name + " >= 0", alive: true, eval: func(s *State, _ []Val) *Term { return e.C.Le(z, get(s), true) }})
				}
				for _, cd := range cands[len(cands)-3:] {
					if cd.alive {
						g := cd.eval(st, entry)
						if !g.IsTrue() && (g.IsFalse() || !e.quickValid(st, g)) {
							cd.alive = false
						}
					}
				}
				changed = true
			}
		}
		if !changed {
			break
		}
		if round == 7 {
			e.bail("loop analysis did not stabilise for %s", desc)
		}
	}
	// 3. real run
	head := e.havocLoopState(st, fr, h, phis, entry, writes, repoint, desc)
	var kept []string
	for _, u := range user {
		if u.Kind == "invariant" {
			st.assume(e.evalLoopClause(st, fr, u, phis, head))
		}
	}
	for _, cd := range cands {
		if cd.alive {
			g := cd.eval(st, head)
			if g.IsFalse() {
				cd.alive = false
				continue
			}
			st.assume(g)
			kept = append(kept, cd.desc)
		}
	}
	sort.Strings(kept)
	if st.Record == nil {
		e.LoopInfo = append(e.LoopInfo, fmt.Sprintf("%s: cut; havoc %d objects; synthesised invariants: %v; user clauses: %d", desc, len(writes), kept, len(user)))
	}
	cut := &CutInfo{Header: h, Phis: phis, HeadVals: head, Cands: cands, UserInvs: user, Measures: measures}
	if fr.Cuts == nil {
		fr.Cuts = map[*ssa.BasicBlock]*CutInfo{}
	}
	fr.Cuts[h] = cut
}

// havocLoopState replaces phis and the written heap objects by fresh values; returns header phi values.
func (e *Exec) havocLoopState(st *State, fr *Frame, h *ssa.BasicBlock, phis []*ssa.Phi, entry []Val, writes map[int]map[string][]PathElem, repoint map[int]bool, desc string) []Val {
	ids := make([]int, 0, len(writes))
	for id := range writes {
		ids = append(ids, id)
	}
	sort.Ints(ids)
	for _, id := range ids {
		if ms, ok := st.Maps[id]; ok {
			ns := *ms
			ns.Abstract = true
			ns.Keys, ns.Vals = nil, nil
			st.Maps[id] = &ns
			continue
		}
		m := e.meta(id)
		name := fmt.Sprintf("loop.obj%d", id)
		var keys []string
		for k := range writes[id] {
			keys = append(keys, k)
		}
		sort.Strings(keys)
		for _, k := range keys {
			pth := writes[id][k]
			cur := e.navigate(st, e.root(st, id), pth)
			ty := typeAt(m.T, pth)
			nv := e.havocVal(st, cur, ty, name+k)
			if av, ok := nv.(*ArrayVal); ok && m.Growable && av.Scalar && len(pth) == 0 {
				l := e.C.Fresh(name+".len", e.idxSort())
				st.assume(e.lenFact(l))
				av.Len = l
			}
			st.Heap[id] = e.update(st, e.root(st, id), pth, func(Val) Val { return nv })
		}
	}
	head := make([]Val, len(phis))
	for k, ph := range phis {
		name := "loop." + ph.Comment
		if ph.Comment == "" {
			name = "loop." + ph.Name()
		}
		if repoint[k] {
			sv := entry[k].(*SliceVal)
			head[k] = e.freshSliceObj(st, sv.ElemT, name)
		} else {
			head[k] = e.havocVal(st, entry[k], ph.Type(), name)
			// growable backing: the slice stays "at the end" of its array
			if sv, ok := head[k].(*SliceVal); ok && sv.Obj != 0 {
				if m := e.meta(sv.Obj); m != nil && m.Growable && writes[sv.Obj] != nil {
					if ev, ok := entry[k].(*SliceVal); ok {
						av := e.sliceBacking(st, sv)
						nsv := &SliceVal{Obj: sv.Obj, Path: sv.Path, Off: ev.Off, Len: e.C.Sub(av.Len, ev.Off), Cap: e.C.Sub(av.Len, ev.Off), Nil: e.C.False(), ElemT: sv.ElemT}
						st.assume(e.leIdx(ev.Off, av.Len))
						head[k] = nsv
					}
				}
			}
		}
		fr.Env[ph] = head[k]
	}
	return head
}

// runRegion executes from header h (phis already bound) until all paths end.
func (e *Exec) runRegion(st *State, fr *Frame, h *ssa.BasicBlock) {
	wl := []work{{st: st, fr: fr, blk: h, prev: nil, idx: firstNonPhi(h), resumed: true}}
	for len(wl) > 0 {
		w := wl[len(wl)-1]
		wl = wl[:len(wl)-1]
		if w.st.Dead {
			continue
		}
		if w.idx == 0 && !w.resumed && w.fr.Region != nil && !w.fr.Region[w.blk] {
			continue // left the loop
		}
		debugf("region %s: block %d idx %d dead=%v", fr.Fn.Name(), w.blk.Index, w.idx, w.st.Dead)
		nw, _ := e.runBlock(w)
		wl = append(wl, nw...)
		if len(wl) > e.MaxPaths {
			e.bail("path explosion in loop analysis of %s", fr.Fn)
		}
	}
}

func firstNonPhi(b *ssa.BasicBlock) int {
	for i, in := range b.Instrs {
		if _, ok := in.(*ssa.Phi); !ok {
			return i
		}
	}
	return len(b.Instrs)
}

// backEdge: a path arrives at a cut header through a back edge.
func (e *Exec) backEdge(st *State, fr *Frame, h, prev *ssa.BasicBlock, cut *CutInfo) {
	pi := predIndex(h, prev)
	back := make([]Val, len(cut.Phis))
	for k, ph := range cut.Phis {
		back[k] = e.val(st, fr, ph.Edges[pi])
	}
	if cut.Dry {
		debugf("dry back-edge at block %d from %d", h.Index, prev.Index)
		cut.OnBack(st, fr, prev, back)
		return
	}
	li := e.loops(fr.Fn)
	desc := fmt.Sprintf("%s loop %d", fnShort(fr.Fn), li.ordinal[h])
	for _, u := range cut.UserInvs {
		if u.Kind != "invariant" {
			continue
		}
		g := e.evalLoopClause(st, fr, u, cut.Phis, back)
		e.obligeL(st, "inv-step", fmt.Sprintf("%s: %s", desc, u.Text), token.Position{}, g, u.Props)
	}
	// synthesised invariants were established by the dry runs under the same hypotheses; re-emit as obligations
	for _, cd := range cut.Cands {
		if cd.alive {
			e.obligeL(st, "inv-step", fmt.Sprintf("%s: auto %s", desc, cd.desc), token.Position{}, cd.eval(st, back), nil)
		}
	}
	// termination
	userDec := false
	for _, u := range cut.UserInvs {
		if u.Kind == "decreases" {
			userDec = true
			m0 := e.evalLoopMeasure(st, fr, u, cut.Phis, cut.HeadVals)
			m1 := e.evalLoopMeasure(st, fr, u, cut.Phis, back)
			g := e.C.And(e.C.Lt(m1, m0, true), e.C.Le(zeroOf(e.C, m0.S), m0, true))
			e.obligeL(st, "dec", fmt.Sprintf("%s: %s", desc, u.Text), token.Position{}, g, u.Props)
		}
	}
	if !userDec && len(cut.Measures) > 0 {
		g := e.C.False()
		for _, m := range cut.Measures {
			a, b := cut.HeadVals[m.phi], back[m.phi]
			switch {
			case m.len:
				g = e.C.Or(g, e.ltIdx(b.(*SliceVal).Len, a.(*SliceVal).Len))
			case m.up:
				g = e.C.Or(g, e.C.Lt(a.(*Term), b.(*Term), isSigned(cut.Phis[m.phi].Type())))
			default:
				g = e.C.Or(g, e.C.Lt(b.(*Term), a.(*Term), isSigned(cut.Phis[m.phi].Type())))
			}
		}
		e.obligeL(st, "dec", desc+": progress", token.Position{}, g, nil)
	} else if !userDec && st.Record == nil {
		e.Notes = append(e.Notes, desc+": no termination measure found (termination not decided)")
	}
}

// synthCandidates builds Houdini candidates over the loop phis.
func (e *Exec) synthCandidates(st *State, fr *Frame, h *ssa.BasicBlock, phis []*ssa.Phi, entry []Val, body map[*ssa.BasicBlock]bool) []*cand {
	var cs []*cand
	c := e.C
	for k, ph := range phis {
		k := k
		switch ev := entry[k].(type) {
		case *Term:
			if !isIntType(ph.Type()) {
				continue
			}
			signed := isSigned(ph.Type())
			e0 := ev
			cs = append(cs, &cand{desc: fmt.Sprintf("%s >= entry", phiName(ph)), alive: true, eval: func(_ *State, v []Val) *Term { return c.Le(e0, v[k].(*Term), signed) }})
			cs = append(cs, &cand{desc: fmt.Sprintf("%s <= entry", phiName(ph)), alive: true, eval: func(_ *State, v []Val) *Term { return c.Le(v[k].(*Term), e0, signed) }})
			if signed {
				z := zeroOf(c, e0.S)
				cs = append(cs, &cand{desc: fmt.Sprintf("%s >= 0", phiName(ph)), alive: true, eval: func(_ *State, v []Val) *Term { return c.Le(z, v[k].(*Term), true) }})
			}
			// bounds from comparisons in the loop against loop-invariant values
			for b := range body {
				for _, in := range b.Instrs {
					bo, ok := in.(*ssa.BinOp)
					if !ok {
						continue
					}
					var other ssa.Value
					isPhiish := func(v ssa.Value) bool {
						if v == ssa.Value(ph) {
							return true
						}
						if b2, ok := v.(*ssa.BinOp); ok && (b2.Op == token.ADD || b2.Op == token.SUB) {
							_, cy := b2.Y.(*ssa.Const)
							_, cx := b2.X.(*ssa.Const)
							return (b2.X == ssa.Value(ph) && cy) || (b2.Y == ssa.Value(ph) && cx)
						}
						return false
					}
					if isPhiish(bo.X) {
						other = bo.Y
					} else if isPhiish(bo.Y) {
						other = bo.X
					} else {
						continue
					}
					switch bo.Op {
					case token.LSS, token.LEQ, token.GTR, token.GEQ, token.NEQ:
					default:
						continue
					}
					var ov Val
					ok2 := false
					if oi, ok := other.(ssa.Instruction); ok && body[oi.Block()] {
						// len(x) of a value defined outside the loop is loop-invariant even when recomputed inside
						call, isCall := other.(*ssa.Call)
						if !isCall {
							continue
						}
						bi, isB := call.Call.Value.(*ssa.Builtin)
						if !isB || bi.Name() != "len" {
							continue
						}
						arg := call.Call.Args[0]
						if ai, ok := arg.(ssa.Instruction); ok && body[ai.Block()] {
							continue
						}
						av, have := fr.Env[arg]
						if !have {
							continue
						}
						switch av.(type) {
						case *SliceVal, *StringVal:
							ov, ok2 = e.lenOf(st, av), true
						default:
							continue
						}
					}
					if !ok2 {
						ov, ok2 = fr.Env[other]
					}
					if _, isC := other.(*ssa.Const); isC {
						ov, ok2 = e.constVal(st, other.(*ssa.Const)), true
					}
					if !ok2 {
						continue
					}
					ot, ok3 := ov.(*Term)
					if !ok3 || ot.S != e0.S {
						continue
					}
					cs = append(cs, &cand{desc: fmt.Sprintf("%s <= %s", phiName(ph), other.Name()), alive: true, eval: func(_ *State, v []Val) *Term { return c.Le(v[k].(*Term), ot, signed) }})
					cs = append(cs, &cand{desc: fmt.Sprintf("%s >= %s", phiName(ph), other.Name()), alive: true, eval: func(_ *State, v []Val) *Term { return c.Le(ot, v[k].(*Term), signed) }})
					cs = append(cs, &cand{desc: fmt.Sprintf("%s < %s", phiName(ph), other.Name()), alive: true, eval: func(_ *State, v []Val) *Term { return c.Lt(v[k].(*Term), ot, signed) }})
				}
			}
		case *SliceVal:
			if ev.Obj == 0 {
				continue
			}
			e0 := ev
			end := c.Add(e0.Off, e0.Len)
			cend := c.Add(e0.Off, e0.Cap)
			cs = append(cs, &cand{desc: fmt.Sprintf("%s is a suffix window (off+len fixed)", phiName(ph)), alive: true, eval: func(_ *State, v []Val) *Term {
				sv, ok := v[k].(*SliceVal)
				if !ok || sv.Obj != e0.Obj {
					return c.False()
				}
				return c.And(c.Eq(c.Add(sv.Off, sv.Len), end), e.leIdx(e0.Off, sv.Off), e.leIdx(sv.Off, end))
			}})
			cs = append(cs, &cand{desc: fmt.Sprintf("%s keeps off+cap", phiName(ph)), alive: true, eval: func(_ *State, v []Val) *Term {
				sv, ok := v[k].(*SliceVal)
				if !ok || sv.Obj != e0.Obj {
					return c.False()
				}
				return c.Eq(c.Add(sv.Off, sv.Cap), cend)
			}})
			cs = append(cs, &cand{desc: fmt.Sprintf("%s non-nil", phiName(ph)), alive: true, eval: func(_ *State, v []Val) *Term {
				sv, ok := v[k].(*SliceVal)
				if !ok {
					return c.False()
				}
				return c.Not(sv.Nil)
			}})
		}
	}
	// relational candidates between pairs of int phis with same sort: p - q constant
	for i, pi := range phis {
		for j, pj := range phis {
			if i >= j {
				continue
			}
			ti, ok1 := entry[i].(*Term)
			tj, ok2 := entry[j].(*Term)
			if !ok1 || !ok2 || ti.S != tj.S || !isIntType(pi.Type()) || !isIntType(pj.Type()) {
				continue
			}
			i, j := i, j
			d0 := c.Sub(ti, tj)
			cs = append(cs, &cand{desc: fmt.Sprintf("%s - %s constant", phiName(pi), phiName(pj)), alive: true, eval: func(_ *State, v []Val) *Term {
				return c.Eq(c.Sub(v[i].(*Term), v[j].(*Term)), d0)
			}})
		}
	}
	return cs
}

func phiName(ph *ssa.Phi) string {
	if ph.Comment != "" {
		return ph.Comment
	}
	return ph.Name()
}

// synthMeasures: candidate termination measures from exit comparisons.
func (e *Exec) synthMeasures(fr *Frame, h *ssa.BasicBlock, phis []*ssa.Phi, body map[*ssa.BasicBlock]bool) []measure {
	var ms []measure
	for b := range body {
		iff, ok := b.Instrs[len(b.Instrs)-1].(*ssa.If)
		if !ok {
			continue
		}
		exit := !body[b.Succs[0]] || !body[b.Succs[1]]
		if !exit {
			continue
		}
		bo, ok := iff.Cond.(*ssa.BinOp)
		if !ok {
			continue
		}
		for k, ph := range phis {
			var left bool
			phiish := func(v ssa.Value) bool {
				if v == ssa.Value(ph) {
					return true
				}
				if b2, ok := v.(*ssa.BinOp); ok && b2.Op == token.ADD {
					_, cy := b2.Y.(*ssa.Const)
					return b2.X == ssa.Value(ph) && cy
				}
				return false
			}
			if phiish(bo.X) {
				left = true
			} else if phiish(bo.Y) {
				left = false
			} else {
				// len(phi) comparisons
				if call, ok := bo.X.(*ssa.Call); ok {
					if bi, ok := call.Call.Value.(*ssa.Builtin); ok && bi.Name() == "len" && call.Call.Args[0] == ssa.Value(ph) {
						if _, isSlice := ph.Type().Underlying().(*types.Slice); isSlice {
							ms = append(ms, measure{phi: k, len: true, desc: "len decreases"})
						}
					}
				}
				continue
			}
			if !isIntType(ph.Type()) {
				continue
			}
			switch bo.Op {
			case token.LSS, token.LEQ:
				ms = append(ms, measure{phi: k, up: left})
			case token.GTR, token.GEQ:
				ms = append(ms, measure{phi: k, up: !left})
			case token.NEQ:
				ms = append(ms, measure{phi: k, up: true})
			}
		}
	}
	return ms
}

// quickValid asks the solvers synchronously whether st.PC implies g.
func (e *Exec) quickValid(st *State, g *Term) bool {
	e.houdiniQueries++
	asserts := append(append([]*Term{}, st.PC...), e.C.Not(g))
	script := e.C.Script(e.W.Prelude, asserts, nil)
	res := e.W.PF.Quick(script, 2.0)
	if res.Status != "sat" && res.Status != "unsat" {
		res = e.W.PF.Quick(script, 10.0)
	}
	if os.Getenv("GOVC_DEBUG") != "" {
		_, f1, l1, _ := runtime.Caller(1)
		_, f2, l2, _ := runtime.Caller(2)
		debugf("quick %s %s %.2fs size=%d from %s:%d %s:%d", res.Status, res.Solver, res.TimeS, len(script), filepath.Base(f1), l1, filepath.Base(f2), l2)
	}
	return res.Status == "unsat"
}

// typeAt walks a type along a field path (array steps take the element type).
func typeAt(t types.Type, path []PathElem) types.Type {
	for _, pe := range path {
		if t == nil {
			return nil
		}
		switch u := t.Underlying().(type) {
		case *types.Struct:
			if pe.Idx != nil || pe.Field < 0 || pe.Field >= u.NumFields() {
				return nil
			}
			t = u.Field(pe.Field).Type()
		case *types.Array:
			t = u.Elem()
		default:
			return nil
		}
	}
	return t
}

// quickValidMany checks several goals under the same path condition, in parallel.
func (e *Exec) quickValidMany(st *State, goals []*Term) []bool {
	t0 := time.Now()
	scripts := make([]string, len(goals))
	for i, g := range goals {
		asserts := append(append([]*Term{}, st.PC...), e.C.Not(g))
		scripts[i] = e.C.Script(e.W.Prelude, asserts, nil)
	}
	res := make([]bool, len(goals))
	var wg sync.WaitGroup
	sem := make(chan struct{}, 8)
	for i := range goals {
		i := i
		wg.Add(1)
		sem <- struct{}{}
		go func() {
			defer wg.Done()
			defer func() { <-sem }()
			r := e.W.PF.Quick(scripts[i], 2.0)
			if r.Status != "sat" && r.Status != "unsat" {
				// undecided within the short budget (a loaded machine, typically): one longer attempt, so that
				// which invariants are found does not depend on the load
				r = e.W.PF.Quick(scripts[i], 10.0)
			}
			if os.Getenv("GOVC_DEBUG") != "" && strings.Contains(scripts[i], "forall") {
				os.WriteFile(fmt.Sprintf("/tmp/fillq_%d_%s.smt2", i, r.Status), []byte(scripts[i]), 0o644)
			}
			res[i] = r.Status == "unsat"
		}()
	}
	wg.Wait()
	e.houdiniQueries += len(goals)
	debugf("quickMany n=%d %.2fs", len(goals), time.Since(t0).Seconds())
	return res
}

type arrival struct {
	st    *State
	pend  []*cand
	goals []*Term
}

// quickValidEach checks goal i under path condition of state i, in parallel.
func (e *Exec) quickValidEach(sts []*State, goals []*Term) []bool {
	t0 := time.Now()
	defer func() { debugf("quickEach n=%d %.2fs", len(goals), time.Since(t0).Seconds()) }()
	scripts := make([]string, len(goals))
	for i, g := range goals {
		asserts := append(append([]*Term{}, sts[i].PC...), e.C.Not(g))
		scripts[i] = e.C.Script(e.W.Prelude, asserts, nil)
	}
	res := make([]bool, len(goals))
	var wg sync.WaitGroup
	sem := make(chan struct{}, 8)
	for i := range goals {
		i := i
		wg.Add(1)
		sem <- struct{}{}
		go func() {
			defer wg.Done()
			defer func() { <-sem }()
			r := e.W.PF.Quick(scripts[i], 2.0)
			if r.Status != "sat" && r.Status != "unsat" {
				r = e.W.PF.Quick(scripts[i], 10.0)
			}
			res[i] = r.Status == "unsat"
		}()
	}
	wg.Wait()
	e.houdiniQueries += len(goals)
	return res
}

// usableClauses drops the user clauses of a loop that mention a variable the loop no longer has (a local renamed or
// removed by a refactoring): the proof then rests on the synthesised invariants alone, and what they cannot carry
// fails as a named obligation further on instead of losing the whole function.
func (e *Exec) usableClauses(st *State, fr *Frame, user []*LoopClause, phis []*ssa.Phi, entry []Val) []*LoopClause {
	var out []*LoopClause
	for _, u := range user {
		ok := func() (ok bool) {
			defer func() {
				if r := recover(); r != nil {
					if b, isBail := r.(Bail); isBail && strings.Contains(b.Reason, "unknown identifier") {
						e.Notes = append(e.Notes, fmt.Sprintf("loop clause dropped (%s): %s", b.Reason, u.Text))
						ok = false
						return
					}
					panic(r)
				}
			}()
			s2 := st.clone()
			s2.Record = &WriteRec{Objs: map[int]bool{}}
			switch u.Kind {
			case "invariant":
				e.evalLoopClause(s2, fr, u, phis, entry)
			case "decreases":
				e.evalLoopMeasure(s2, fr, u, phis, entry)
			}
			return true
		}()
		if ok {
			out = append(out, u)
		}
	}
	return out
}

// fillCandidates proposes "array fill" invariants from what one symbolic pass over the loop body stored into scalar
// arrays: when the body stores val(i) at index idx(i) of an array that existed before the loop, with i an induction
// variable of constant stride and idx, val mentioning nothing else that changes in the loop, the candidate is
//     forall k between the entry value of i and its current value (on the stride): array[idx(k)] == val(k).
// Like every candidate it is kept only if it holds on entry and is preserved by the body (Houdini), so a wrong guess
// costs a solver query, not soundness. It makes loops that fill a preallocated buffer or decode into a slice provable
// without a hand-written invariant naming the loop's locals.
func (e *Exec) fillCandidates(st0, bs *State, phis []*ssa.Phi, entry, head []Val, headRoots map[int]Val, writes map[int]map[string][]PathElem,
	deltas map[int]*Term, nonConst map[int]bool, preNames map[string]bool, seen map[string]bool) []*cand {
	c := e.C
	var out []*cand
	ids := make([]int, 0, len(writes))
	for id := range writes {
		ids = append(ids, id)
	}
	sort.Ints(ids)
	for _, id := range ids {
		hr, ok := headRoots[id]
		if !ok {
			continue
		}
		br, ok := bs.Heap[id]
		if !ok {
			continue
		}
		var keys []string
		for k := range writes[id] {
			keys = append(keys, k)
		}
		sort.Strings(keys)
		for _, pk := range keys {
			pth := writes[id][pk]
			ha, ok1 := e.navigateQuiet(hr, pth).(*ArrayVal)
			ba, ok2 := e.navigateQuiet(br, pth).(*ArrayVal)
			if !ok1 || !ok2 || !ha.Scalar || !ba.Scalar {
				continue
			}
			// the stores of this pass, newest first
			type store struct{ idx, val *Term }
			var stores []store
			cur := ba.C
			okShape := false
			for n := 0; n < 16; n++ {
				if cur == ha.C {
					okShape = true
					break
				}
				as, isStore := cur.(*ArrStore)
				if !isStore {
					break
				}
				stores = append(stores, store{as.Idx, as.Val})
				cur = as.Base
			}
			debugf("fill: obj%d%s shape=%v stores=%d backC=%T headC=%T", id, pk, okShape, len(stores), ba.C, ha.C)
			if !okShape || len(stores) == 0 {
				continue
			}
			for _, sr := range stores {
				// the induction variable the index depends on
				k := -1
				for j := range phis {
					hv, isT := head[j].(*Term)
					if !isT || hv.Op != "var" || !isIntType(phis[j].Type()) {
						continue
					}
					if termMentions(sr.idx, hv.Name) {
						if k >= 0 {
							k = -2
							break
						}
						k = j
					}
				}
				debugf("fill: store idx=%s k=%d", c.Show(sr.idx), k)
				if k < 0 || nonConst[k] {
					continue
				}
				d, have := deltas[k]
				if !have || isZero(d) {
					debugf("fill: no constant stride yet for phi %d", k)
					continue
				}
				hv := head[k].(*Term)
				e0, isT := entry[k].(*Term)
				if !isT {
					continue
				}
				// nothing else created during this pass may occur in index or value
				if !termOnly(sr.idx, preNames, hv.Name) || !termOnly(sr.val, preNames, hv.Name) {
					debugf("fill: rejected, mentions loop-local symbols: %s", c.Show(sr.val))
					continue
				}
				ph := c.Var("fill.k", hv.S)
				idxP := c.Subst(sr.idx, map[*Term]*Term{hv: ph})
				valP := c.Subst(sr.val, map[*Term]*Term{hv: ph})
				key := fmt.Sprintf("fill:%d%s:%d:%d:%d", id, pk, idxP.ID(), valP.ID(), k)
				if seen[key] {
					continue
				}
				seen[key] = true
				signed := isSigned(phis[k].Type())
				step := d.SInt()
				id, pth, k := id, pth, k
				name := fmt.Sprintf("obj%d%s", id, pk)
				if m := e.meta(id); m != nil && m.Name != "" {
					name = m.Name + pk
				}
				cd := &cand{desc: fmt.Sprintf("%s filled: [%s] == %s for every past %s", name, c.Show(idxP), c.Show(valP), phiName(phis[k])), alive: true,
					eval: func(s *State, v []Val) *Term {
						root, ok := s.Heap[id]
						if !ok {
							return c.False()
						}
						av, ok := e.navigateQuiet(root, pth).(*ArrayVal)
						iv, ok2 := v[k].(*Term)
						if !ok || !ok2 || !av.Scalar {
							return c.False()
						}
						kv := c.Var(c.FreshName("fk"), iv.S)
						var rng *Term
						abs := new(big.Int).Abs(step)
						var dist *Term
						if step.Sign() > 0 {
							rng = c.And(c.Le(e0, kv, signed), c.Lt(kv, iv, signed))
							dist = c.Sub(kv, e0)
						} else {
							rng = c.And(c.Lt(iv, kv, signed), c.Le(kv, e0, signed))
							dist = c.Sub(e0, kv)
						}
						if abs.Cmp(big.NewInt(1)) != 0 {
							if iv.S.IsBV() {
								rng = c.And(rng, c.Eq(c.URem(dist, c.BVConst(abs, iv.S.W)), c.BVConst(big.NewInt(0), iv.S.W)))
							} else {
								rng = c.And(rng, c.Eq(c.IMod(dist, c.IntConst(abs)), c.Inti(0)))
							}
						}
						if rng.IsFalse() {
							return c.True()
						}
						m := map[*Term]*Term{ph: kv}
						body := c.Eq(e.sel(av.C, c.Subst(idxP, m)), c.Subst(valP, m))
						return c.Forall([]*Term{kv}, c.Implies(rng, body))
					}}
				// must hold on entry (empty range)
				if g := cd.eval(st0, entry); !g.IsTrue() && (g.IsFalse() || !e.quickValid(st0, g)) {
					debugf("fill: candidate does not hold on entry: %s", cd.desc)
					continue
				}
				debugf("fill: candidate %s", cd.desc)
				out = append(out, cd)
			}
		}
	}
	return out
}

// navigateQuiet walks a value along a field path without touching any state (nil when the path does not fit).
func (e *Exec) navigateQuiet(v Val, path []PathElem) Val {
	for _, pe := range path {
		switch x := v.(type) {
		case *StructVal:
			if pe.Idx != nil || pe.Field < 0 || pe.Field >= len(x.Fields) {
				return nil
			}
			v = x.Fields[pe.Field]
		default:
			return nil
		}
	}
	return v
}

func termMentions(t *Term, name string) bool {
	seen := map[*Term]bool{}
	var rec func(t *Term) bool
	rec = func(t *Term) bool {
		if seen[t] {
			return false
		}
		seen[t] = true
		if (t.Op == "var" || t.Op == "app") && t.Name == name {
			return true
		}
		for _, a := range t.Args {
			if rec(a) {
				return true
			}
		}
		return false
	}
	return rec(t)
}

// termOnly: every variable / function symbol of t existed before (pre) or is `also`.
func termOnly(t *Term, pre map[string]bool, also string) bool {
	seen := map[*Term]bool{}
	var rec func(t *Term) bool
	rec = func(t *Term) bool {
		if seen[t] {
			return true
		}
		seen[t] = true
		if (t.Op == "var" || t.Op == "app") && t.Name != also && !pre[t.Name] {
			return false
		}
		for _, a := range t.Args {
			if !rec(a) {
				return false
			}
		}
		return true
	}
	return rec(t)
}
