package vc

import (
	"fmt"
	"go/token"
	"go/types"
	"sort"

	"golang.org/x/tools/go/ssa"
)

type loopInfo struct {
	headers map[*ssa.BasicBlock]bool
	body    map[*ssa.BasicBlock]map[*ssa.BasicBlock]bool // header -> natural loop body
	ordinal map[*ssa.BasicBlock]int                      // header -> ordinal in block order
	inner   map[*ssa.BasicBlock]*ssa.BasicBlock          // block -> innermost header
}

func (e *Exec) loops(fn *ssa.Function) *loopInfo {
	if li, ok := e.loopsCache[fn]; ok {
		return li
	}
	li := &loopInfo{headers: map[*ssa.BasicBlock]bool{}, body: map[*ssa.BasicBlock]map[*ssa.BasicBlock]bool{}, ordinal: map[*ssa.BasicBlock]int{}, inner: map[*ssa.BasicBlock]*ssa.BasicBlock{}}
	for _, b := range fn.Blocks {
		for _, s := range b.Succs {
			if s.Dominates(b) {
				// back edge b -> s
				li.headers[s] = true
				body := li.body[s]
				if body == nil {
					body = map[*ssa.BasicBlock]bool{s: true}
					li.body[s] = body
				}
				// natural loop: all nodes that reach b without going through s
				stack := []*ssa.BasicBlock{b}
				for len(stack) > 0 {
					x := stack[len(stack)-1]
					stack = stack[:len(stack)-1]
					if body[x] {
						continue
					}
					body[x] = true
					for _, p := range x.Preds {
						stack = append(stack, p)
					}
				}
			}
		}
	}
	n := 0
	for _, b := range fn.Blocks {
		if li.headers[b] {
			li.ordinal[b] = n
			n++
		}
	}
	// innermost header per block: the header with the smallest body containing the block
	for _, b := range fn.Blocks {
		best := -1
		for h, body := range li.body {
			if body[b] && (best < 0 || len(body) < best) {
				best = len(body)
				li.inner[b] = h
			}
		}
	}
	e.loopsCache[fn] = li
	return li
}

// CutInfo describes an active loop cut on a path.
type CutInfo struct {
	Header   *ssa.BasicBlock
	Dry      bool
	Phis     []*ssa.Phi
	HeadVals []Val // havoc'd phi values at header
	Cands    []*cand
	UserInvs []*LoopClause
	OnBack   func(st *State, fr *Frame, prev *ssa.BasicBlock, backVals []Val)
	Measures []measure
}

type cand struct {
	desc   string
	eval   func(vals []Val) *Term // over phi values
	alive  bool
}

type measure struct {
	phi  int
	up   bool // p increases towards a bound
	len  bool // slice length decreases
	desc string
}

func (e *Exec) noteSymbolicBranch(fr *Frame, blk *ssa.BasicBlock) {
	li := e.loops(fr.Fn)
	h := li.inner[blk]
	for h != nil {
		body := li.body[h]
		exit := false
		for _, s := range blk.Succs {
			if !body[s] {
				exit = true
			}
		}
		if exit {
			e.symExit[h] = true
		}
		// outer loop: find next enclosing header
		var outer *ssa.BasicBlock
		best := -1
		for h2, b2 := range li.body {
			if h2 != h && b2[h] && len(b2) > len(body) && (best < 0 || len(b2) < best) {
				best = len(b2)
				outer = h2
			}
		}
		h = outer
	}
}

func (e *Exec) phisOf(h *ssa.BasicBlock) []*ssa.Phi {
	var phis []*ssa.Phi
	for _, in := range h.Instrs {
		ph, ok := in.(*ssa.Phi)
		if !ok {
			break
		}
		phis = append(phis, ph)
	}
	return phis
}

func predIndex(h, prev *ssa.BasicBlock) int {
	for k, p := range h.Preds {
		if p == prev {
			return k
		}
	}
	return -1
}

// enterHeader handles arrival at a loop header. Returns cont=false when the path ends here.
func (e *Exec) enterHeader(st *State, fr *Frame, h, prev *ssa.BasicBlock) (bool, []work) {
	isBack := prev != nil && h.Dominates(prev)
	if fr.Cuts != nil {
		if cut := fr.Cuts[h]; cut != nil {
			if isBack {
				e.backEdge(st, fr, h, prev, cut)
				return false, nil
			}
		}
	}
	li := e.loops(fr.Fn)
	key := loopKey{fr.Fn, li.ordinal[h]}
	if !isBack && (e.cutHeaders[key] || e.W.hasLoopClauses(fr.Fn, li.ordinal[h])) && !e.W.forceUnroll(fr.Fn, li.ordinal[h]) {
		e.startCut(st, fr, h, prev)
		return !st.Dead, nil
	}
	// unroll mode
	e.evalPhis(st, fr, h, prev)
	if fr.Iter == nil {
		fr.Iter = map[*ssa.BasicBlock]int{}
	}
	if !isBack {
		fr.Iter[h] = 0
	}
	fr.Iter[h]++
	limit := 5000
	if n := e.W.unrollLimit(fr.Fn, li.ordinal[h]); n > 0 {
		limit = n
	} else if e.symExit[h] {
		limit = 40
	}
	if fr.Iter[h] > limit {
		if e.W.forceUnroll(fr.Fn, li.ordinal[h]) {
			e.bail("loop %d of %s exceeds unroll bound %d", li.ordinal[h], fr.Fn, limit)
		}
		panic(restartCut{key})
	}
	return true, nil
}

type loopKey struct {
	fn  *ssa.Function
	ord int
}

// startCut: cut the loop at header h using invariants (user-provided + synthesised).
func (e *Exec) startCut(st *State, fr *Frame, h, prev *ssa.BasicBlock) {
	li := e.loops(fr.Fn)
	ord := li.ordinal[h]
	body := li.body[h]
	phis := e.phisOf(h)
	pi := predIndex(h, prev)
	entry := make([]Val, len(phis))
	for k, ph := range phis {
		entry[k] = e.val(st, fr, ph.Edges[pi])
	}
	user := e.W.loopClauses(fr.Fn, ord)
	desc := fmt.Sprintf("%s loop %d", fnShort(fr.Fn), ord)

	// 1. user invariants must hold on entry
	for _, u := range user {
		if u.Kind != "invariant" {
			continue
		}
		g := e.evalLoopClause(st, fr, u, phis, entry)
		e.obligeL(st, "inv-init", fmt.Sprintf("%s: %s", desc, u.Text), token.Position{}, g, u.Props)
	}

	// 2. dry runs: write set + phi re-pointing + Houdini over candidates
	cands := e.synthCandidates(st, fr, h, phis, entry, body)
	// init filter for candidates
	for _, cd := range cands {
		g := cd.eval(entry)
		if g.IsTrue() {
			continue
		}
		if g.IsFalse() || !e.quickValid(st, g) {
			cd.alive = false
		}
	}
	writes := map[int]bool{}
	repoint := map[int]bool{}
	measures := e.synthMeasures(fr, h, phis, body)
	for round := 0; round < 8; round++ {
		changed := false
		s2 := st.clone()
		s2.Record = &WriteRec{Objs: map[int]bool{}}
		f2 := fr.clone()
		head := e.havocLoopState(s2, f2, h, phis, entry, writes, repoint, desc)
		for _, u := range user {
			if u.Kind == "invariant" {
				s2.assume(e.evalLoopClause(s2, f2, u, phis, head))
			}
		}
		for _, cd := range cands {
			if cd.alive {
				s2.assume(cd.eval(head))
			}
		}
		cut := &CutInfo{Header: h, Dry: true, Phis: phis, HeadVals: head}
		cut.OnBack = func(bs *State, bf *Frame, bprev *ssa.BasicBlock, back []Val) {
			for k := range phis {
				if sv, ok := back[k].(*SliceVal); ok {
					hv := head[k].(*SliceVal)
					if sv.Obj != hv.Obj && !repoint[k] {
						repoint[k] = true
						changed = true
					}
				}
				if pv, ok := back[k].(*PtrVal); ok {
					hv, _ := head[k].(*PtrVal)
					if hv != nil && pv.Obj != hv.Obj {
						e.bail("loop-carried pointer changes target in %s", desc)
					}
				}
			}
			if changed {
				return
			}
			for _, cd := range cands {
				if !cd.alive {
					continue
				}
				g := cd.eval(back)
				if g.IsTrue() {
					continue
				}
				if g.IsFalse() || !e.quickValid(bs, g) {
					cd.alive = false
					changed = true
				}
			}
		}
		if f2.Cuts == nil {
			f2.Cuts = map[*ssa.BasicBlock]*CutInfo{}
		}
		f2.Cuts[h] = cut
		f2.Region = body
		e.runRegion(s2, f2, h)
		for id := range s2.Record.Objs {
			if _, existed := st.Heap[id]; existed && !writes[id] {
				writes[id] = true
				changed = true
			}
			if _, existed := st.Maps[id]; existed && !writes[id] {
				writes[id] = true
				changed = true
			}
		}
		if !changed {
			break
		}
		if round == 7 {
			e.bail("loop analysis did not stabilise for %s", desc)
		}
	}
	// 3. real run
	head := e.havocLoopState(st, fr, h, phis, entry, writes, repoint, desc)
	var kept []string
	for _, u := range user {
		if u.Kind == "invariant" {
			st.assume(e.evalLoopClause(st, fr, u, phis, head))
		}
	}
	for _, cd := range cands {
		if cd.alive {
			st.assume(cd.eval(head))
			kept = append(kept, cd.desc)
		}
	}
	sort.Strings(kept)
	if st.Record == nil {
		e.LoopInfo = append(e.LoopInfo, fmt.Sprintf("%s: cut; havoc %d objects; synthesised invariants: %v; user clauses: %d", desc, len(writes), kept, len(user)))
	}
	cut := &CutInfo{Header: h, Phis: phis, HeadVals: head, Cands: cands, UserInvs: user, Measures: measures}
	if fr.Cuts == nil {
		fr.Cuts = map[*ssa.BasicBlock]*CutInfo{}
	}
	fr.Cuts[h] = cut
}

// havocLoopState replaces phis and the written heap objects by fresh values; returns header phi values.
func (e *Exec) havocLoopState(st *State, fr *Frame, h *ssa.BasicBlock, phis []*ssa.Phi, entry []Val, writes map[int]bool, repoint map[int]bool, desc string) []Val {
	ids := make([]int, 0, len(writes))
	for id := range writes {
		ids = append(ids, id)
	}
	sort.Ints(ids)
	for _, id := range ids {
		if ms, ok := st.Maps[id]; ok {
			ns := *ms
			ns.Abstract = true
			ns.Keys, ns.Vals = nil, nil
			st.Maps[id] = &ns
			continue
		}
		root := e.root(st, id)
		m := e.meta(id)
		name := fmt.Sprintf("loop.obj%d", id)
		nv := e.havocVal(st, root, m.T, name)
		if av, ok := nv.(*ArrayVal); ok && m.Growable && av.Scalar {
			l := e.C.Fresh(name+".len", e.idxSort())
			st.assume(e.lenFact(l))
			av.Len = l
		}
		st.Heap[id] = nv
	}
	head := make([]Val, len(phis))
	for k, ph := range phis {
		name := "loop." + ph.Comment
		if ph.Comment == "" {
			name = "loop." + ph.Name()
		}
		if repoint[k] {
			sv := entry[k].(*SliceVal)
			head[k] = e.freshSliceObj(st, sv.ElemT, name)
		} else {
			head[k] = e.havocVal(st, entry[k], ph.Type(), name)
			// growable backing: the slice stays "at the end" of its array
			if sv, ok := head[k].(*SliceVal); ok && sv.Obj != 0 {
				if m := e.meta(sv.Obj); m != nil && m.Growable && writes[sv.Obj] {
					if ev, ok := entry[k].(*SliceVal); ok {
						av := e.sliceBacking(st, sv)
						nsv := &SliceVal{Obj: sv.Obj, Path: sv.Path, Off: ev.Off, Len: e.C.Sub(av.Len, ev.Off), Cap: e.C.Sub(av.Len, ev.Off), Nil: e.C.False(), ElemT: sv.ElemT}
						st.assume(e.leIdx(ev.Off, av.Len))
						head[k] = nsv
					}
				}
			}
		}
		fr.Env[ph] = head[k]
	}
	return head
}

// runRegion executes from header h (phis already bound) until all paths end.
func (e *Exec) runRegion(st *State, fr *Frame, h *ssa.BasicBlock) {
	wl := []work{{st: st, fr: fr, blk: h, prev: nil, idx: firstNonPhi(h)}}
	for len(wl) > 0 {
		w := wl[len(wl)-1]
		wl = wl[:len(wl)-1]
		if w.st.Dead {
			continue
		}
		if w.idx == 0 && w.fr.Region != nil && !w.fr.Region[w.blk] {
			continue // left the loop
		}
		nw, _ := e.runBlock(w)
		wl = append(wl, nw...)
		if len(wl) > e.MaxPaths {
			e.bail("path explosion in loop analysis of %s", fr.Fn)
		}
	}
}

func firstNonPhi(b *ssa.BasicBlock) int {
	for i, in := range b.Instrs {
		if _, ok := in.(*ssa.Phi); !ok {
			return i
		}
	}
	return len(b.Instrs)
}

// backEdge: a path arrives at a cut header through a back edge.
func (e *Exec) backEdge(st *State, fr *Frame, h, prev *ssa.BasicBlock, cut *CutInfo) {
	pi := predIndex(h, prev)
	back := make([]Val, len(cut.Phis))
	for k, ph := range cut.Phis {
		back[k] = e.val(st, fr, ph.Edges[pi])
	}
	if cut.Dry {
		cut.OnBack(st, fr, prev, back)
		return
	}
	li := e.loops(fr.Fn)
	desc := fmt.Sprintf("%s loop %d", fnShort(fr.Fn), li.ordinal[h])
	for _, u := range cut.UserInvs {
		if u.Kind != "invariant" {
			continue
		}
		g := e.evalLoopClause(st, fr, u, cut.Phis, back)
		e.obligeL(st, "inv-step", fmt.Sprintf("%s: %s", desc, u.Text), token.Position{}, g, u.Props)
	}
	// synthesised invariants were established by the dry runs under the same hypotheses; re-emit as obligations
	for _, cd := range cut.Cands {
		if cd.alive {
			e.obligeL(st, "inv-step", fmt.Sprintf("%s: auto %s", desc, cd.desc), token.Position{}, cd.eval(back), nil)
		}
	}
	// termination
	userDec := false
	for _, u := range cut.UserInvs {
		if u.Kind == "decreases" {
			userDec = true
			m0 := e.evalLoopMeasure(st, fr, u, cut.Phis, cut.HeadVals)
			m1 := e.evalLoopMeasure(st, fr, u, cut.Phis, back)
			g := e.C.And(e.C.Lt(m1, m0, true), e.C.Le(zeroOf(e.C, m0.S), m0, true))
			e.obligeL(st, "dec", fmt.Sprintf("%s: %s", desc, u.Text), token.Position{}, g, u.Props)
		}
	}
	if !userDec && len(cut.Measures) > 0 {
		g := e.C.False()
		for _, m := range cut.Measures {
			a, b := cut.HeadVals[m.phi], back[m.phi]
			switch {
			case m.len:
				g = e.C.Or(g, e.ltIdx(b.(*SliceVal).Len, a.(*SliceVal).Len))
			case m.up:
				g = e.C.Or(g, e.C.Lt(a.(*Term), b.(*Term), isSigned(cut.Phis[m.phi].Type())))
			default:
				g = e.C.Or(g, e.C.Lt(b.(*Term), a.(*Term), isSigned(cut.Phis[m.phi].Type())))
			}
		}
		e.obligeL(st, "dec", desc+": progress", token.Position{}, g, nil)
	} else if !userDec && st.Record == nil {
		e.Notes = append(e.Notes, desc+": no termination measure found (termination not decided)")
	}
}

// synthCandidates builds Houdini candidates over the loop phis.
func (e *Exec) synthCandidates(st *State, fr *Frame, h *ssa.BasicBlock, phis []*ssa.Phi, entry []Val, body map[*ssa.BasicBlock]bool) []*cand {
	var cs []*cand
	c := e.C
	for k, ph := range phis {
		k := k
		switch ev := entry[k].(type) {
		case *Term:
			if !isIntType(ph.Type()) {
				continue
			}
			signed := isSigned(ph.Type())
			e0 := ev
			cs = append(cs, &cand{desc: fmt.Sprintf("%s >= entry", phiName(ph)), alive: true, eval: func(v []Val) *Term { return c.Le(e0, v[k].(*Term), signed) }})
			cs = append(cs, &cand{desc: fmt.Sprintf("%s <= entry", phiName(ph)), alive: true, eval: func(v []Val) *Term { return c.Le(v[k].(*Term), e0, signed) }})
			if signed {
				z := zeroOf(c, e0.S)
				cs = append(cs, &cand{desc: fmt.Sprintf("%s >= 0", phiName(ph)), alive: true, eval: func(v []Val) *Term { return c.Le(z, v[k].(*Term), true) }})
			}
			// bounds from comparisons in the loop against loop-invariant values
			for b := range body {
				for _, in := range b.Instrs {
					bo, ok := in.(*ssa.BinOp)
					if !ok {
						continue
					}
					var other ssa.Value
					if bo.X == ssa.Value(ph) {
						other = bo.Y
					} else if bo.Y == ssa.Value(ph) {
						other = bo.X
					} else {
						continue
					}
					switch bo.Op {
					case token.LSS, token.LEQ, token.GTR, token.GEQ, token.NEQ:
					default:
						continue
					}
					if oi, ok := other.(ssa.Instruction); ok && body[oi.Block()] {
						continue
					}
					ov, ok2 := fr.Env[other]
					if _, isC := other.(*ssa.Const); isC {
						ov, ok2 = e.constVal(st, other.(*ssa.Const)), true
					}
					if !ok2 {
						continue
					}
					ot, ok3 := ov.(*Term)
					if !ok3 || ot.S != e0.S {
						continue
					}
					cs = append(cs, &cand{desc: fmt.Sprintf("%s <= %s", phiName(ph), other.Name()), alive: true, eval: func(v []Val) *Term { return c.Le(v[k].(*Term), ot, signed) }})
					cs = append(cs, &cand{desc: fmt.Sprintf("%s >= %s", phiName(ph), other.Name()), alive: true, eval: func(v []Val) *Term { return c.Le(ot, v[k].(*Term), signed) }})
				}
			}
		case *SliceVal:
			if ev.Obj == 0 {
				continue
			}
			e0 := ev
			end := c.Add(e0.Off, e0.Len)
			cend := c.Add(e0.Off, e0.Cap)
			cs = append(cs, &cand{desc: fmt.Sprintf("%s is a suffix window (off+len fixed)", phiName(ph)), alive: true, eval: func(v []Val) *Term {
				sv, ok := v[k].(*SliceVal)
				if !ok || sv.Obj != e0.Obj {
					return c.False()
				}
				return c.And(c.Eq(c.Add(sv.Off, sv.Len), end), e.leIdx(e0.Off, sv.Off), e.leIdx(sv.Off, end))
			}})
			cs = append(cs, &cand{desc: fmt.Sprintf("%s keeps off+cap", phiName(ph)), alive: true, eval: func(v []Val) *Term {
				sv, ok := v[k].(*SliceVal)
				if !ok || sv.Obj != e0.Obj {
					return c.False()
				}
				return c.Eq(c.Add(sv.Off, sv.Cap), cend)
			}})
			cs = append(cs, &cand{desc: fmt.Sprintf("%s non-nil", phiName(ph)), alive: true, eval: func(v []Val) *Term {
				sv, ok := v[k].(*SliceVal)
				if !ok {
					return c.False()
				}
				return c.Not(sv.Nil)
			}})
		}
	}
	// relational candidates between pairs of int phis with same sort: p - q constant
	for i, pi := range phis {
		for j, pj := range phis {
			if i >= j {
				continue
			}
			ti, ok1 := entry[i].(*Term)
			tj, ok2 := entry[j].(*Term)
			if !ok1 || !ok2 || ti.S != tj.S || !isIntType(pi.Type()) || !isIntType(pj.Type()) {
				continue
			}
			i, j := i, j
			d0 := c.Sub(ti, tj)
			cs = append(cs, &cand{desc: fmt.Sprintf("%s - %s constant", phiName(pi), phiName(pj)), alive: true, eval: func(v []Val) *Term {
				return c.Eq(c.Sub(v[i].(*Term), v[j].(*Term)), d0)
			}})
		}
	}
	return cs
}

func phiName(ph *ssa.Phi) string {
	if ph.Comment != "" {
		return ph.Comment
	}
	return ph.Name()
}

// synthMeasures: candidate termination measures from exit comparisons.
func (e *Exec) synthMeasures(fr *Frame, h *ssa.BasicBlock, phis []*ssa.Phi, body map[*ssa.BasicBlock]bool) []measure {
	var ms []measure
	for b := range body {
		iff, ok := b.Instrs[len(b.Instrs)-1].(*ssa.If)
		if !ok {
			continue
		}
		exit := !body[b.Succs[0]] || !body[b.Succs[1]]
		if !exit {
			continue
		}
		bo, ok := iff.Cond.(*ssa.BinOp)
		if !ok {
			continue
		}
		for k, ph := range phis {
			var left bool
			if bo.X == ssa.Value(ph) {
				left = true
			} else if bo.Y == ssa.Value(ph) {
				left = false
			} else {
				// len(phi) comparisons
				if call, ok := bo.X.(*ssa.Call); ok {
					if bi, ok := call.Call.Value.(*ssa.Builtin); ok && bi.Name() == "len" && call.Call.Args[0] == ssa.Value(ph) {
						if _, isSlice := ph.Type().Underlying().(*types.Slice); isSlice {
							ms = append(ms, measure{phi: k, len: true, desc: "len decreases"})
						}
					}
				}
				continue
			}
			if !isIntType(ph.Type()) {
				continue
			}
			switch bo.Op {
			case token.LSS, token.LEQ:
				ms = append(ms, measure{phi: k, up: left})
			case token.GTR, token.GEQ:
				ms = append(ms, measure{phi: k, up: !left})
			case token.NEQ:
				ms = append(ms, measure{phi: k, up: true})
			}
		}
	}
	return ms
}

// quickValid asks the solvers synchronously whether st.PC implies g.
func (e *Exec) quickValid(st *State, g *Term) bool {
	e.houdiniQueries++
	asserts := append(append([]*Term{}, st.PC...), e.C.Not(g))
	res := e.W.Solve(e.C, asserts, 3.0, nil)
	return res.Status == "unsat"
}
