package vc

import (
	"fmt"
	"go/ast"
	"go/constant"
	"go/token"
	"go/types"
	"regexp"
	"sort"
	"strings"

	"golang.org/x/tools/go/packages"
)

// Layout schema for the SMB1 command structures (properties C04 / C05).
//
// For every struct of package `commands` that embeds command_interface.Command the schema derives, from the
// struct declaration of the CURRENT tree (field order, the `// Parameters` / `// Data` section comments) and
// from the MS-CIFS encoding rules below, the expected wire image
//
//	[WordCount] [AndX words]? enc(parameter fields)  le16(ByteCount) enc(data fields)
//
// and emits a contract for Marshal: framing (counts equal what is emitted), one slot obligation per field
// (the field's bytes sit at its offset, as wide as its type), one byte-order obligation per multi-byte
// field, fields unchanged, and repeatability (the accumulators are back to empty).
//
// Encoding rules (MS-CIFS 2.2.1): UCHAR 1 byte; USHORT/SHORT 2 bytes LE; ULONG/LONG and 32-bit flag words
// 4 bytes LE; LARGE_INTEGER 8 bytes LE; FILETIME low then high dword, LE; SMB_DATE packed 16-bit LE word;
// SMB_FILE_ATTRIBUTES 16-bit LE; SMB_NMPIPE_STATUS two bytes; [n]T n times T; []UCHAR the bytes; SMB_STRING /
// OEM_STRING per buffer format (format byte, optional LE16 length, bytes, optional NUL).

type cmdField struct {
	Name     string
	Section  int    // 0 parameters, 1 data
	Enc      string // spec expression (sequence) of the LE / canonical encoding
	EncBE    string // big-endian alternative for multi-byte integers ("" if none)
	Width    string // Go expression of the encoded width
	ConstW   int    // >= 0 when constant
	Unsup    string // reason when the field type is outside the table
	Keep     string // expression asserting the field is unchanged
	Req      string // extra precondition
	IsString bool   // SMB_STRING / OEM_STRING field
	Restrict string // the field is covered for some of its values only: which
}

type CmdSchema struct {
	Type     string
	AndX     bool
	Fields   []cmdField
	Unsup    string
	Restrict []string // fields covered for some of their values only
	NoLayout string // reason why the fixed-layout (Marshal) contract is not generated although the round-trip lemma is
	PkgPath  string
}

const cmdPkg = modulePath + "/network/smb/smb_v10/message/commands"

// CommandSchemas builds the schema of every command structure of the loaded program.
func (w *World) CommandSchemas() []*CmdSchema {
	var pkg *packages.Package
	packages.Visit(w.Pkgs, nil, func(p *packages.Package) {
		if p.PkgPath == cmdPkg {
			pkg = p
		}
	})
	if pkg == nil {
		return nil
	}
	var out []*CmdSchema
	for _, file := range pkg.Syntax {
		if strings.HasSuffix(w.Prog.Fset.Position(file.Pos()).Filename, "_test.go") {
			continue
		}
		for _, decl := range file.Decls {
			gd, ok := decl.(*ast.GenDecl)
			if !ok {
				continue
			}
			for _, sp := range gd.Specs {
				ts, ok := sp.(*ast.TypeSpec)
				if !ok {
					continue
				}
				st, ok := ts.Type.(*ast.StructType)
				if !ok || len(st.Fields.List) == 0 {
					continue
				}
				// first field must be the embedded command_interface.Command
				f0 := st.Fields.List[0]
				if len(f0.Names) != 0 || !strings.HasSuffix(types.ExprString(f0.Type), "command_interface.Command") {
					continue
				}
				sc := &CmdSchema{Type: ts.Name.Name, PkgPath: cmdPkg}
				// section markers
				type marker struct {
					pos int
					sec int
				}
				var marks []marker
				for _, cg := range file.Comments {
					if cg.Pos() < st.Pos() || cg.End() > st.End() {
						continue
					}
					for _, c := range cg.List {
						t := strings.TrimSpace(strings.TrimPrefix(c.Text, "//"))
						if t == "Parameters" {
							marks = append(marks, marker{int(c.Pos()), 0})
						} else if t == "Data" {
							marks = append(marks, marker{int(c.Pos()), 1})
						}
					}
				}
				sort.Slice(marks, func(i, j int) bool { return marks[i].pos < marks[j].pos })
				obj := pkg.Types.Scope().Lookup(ts.Name.Name)
				stt := obj.Type().Underlying().(*types.Struct)
				fi := 1
				for _, fl := range st.Fields.List[1:] {
					for _, nm := range fl.Names {
						sec := -1
						for _, m := range marks {
							if m.pos < int(fl.Pos()) {
								sec = m.sec
							}
						}
						cf := classifyField(nm.Name, stt.Field(fi).Type(), fl.Type)
						cf.Section = sec
						if sec < 0 {
							cf.Unsup = "field outside the // Parameters and // Data sections"
						}
						sc.Fields = append(sc.Fields, cf)
						fi++
					}
				}
				// IsAndX: the type overrides IsAndX to return true
				sc.AndX = typeIsAndX(pkg, ts.Name.Name)
				// buffer formats of SMB_STRING fields, from the SetBufferFormat calls in Marshal
				fmts := bufferFormats(pkg, ts.Name.Name)
				for i := range sc.Fields {
					f := &sc.Fields[i]
					if f.Enc == "@string" {
						k, ok := fmts[f.Name]
						if !ok {
							f.Unsup = "SMB_STRING field without a SetBufferFormat call in Marshal"
							continue
						}
						fillStringEnc(f, k)
					}
				}
				// count fields the encoder recomputes from a buffer (`c.N = T(len(c.B))`): an internally
				// consistent value has the count agree with the buffer, which becomes a precondition;
				// fields emitted only under a condition are outside the fixed-layout schema.
				counts, conditional := marshalFacts(pkg, ts.Name.Name)
				for k, v := range unmarshalCounts(pkg, ts.Name.Name) {
					if _, have := counts[k]; !have {
						counts[k] = v
					}
				}
				for i := range sc.Fields {
					f := &sc.Fields[i]
					if rq, ok := counts[f.Name]; ok {
						if f.Req != "" {
							f.Req += " && "
						}
						f.Req += rq
					}
					if conditional[f.Name] && f.Unsup == "" && sc.NoLayout == "" {
						sc.NoLayout = f.Name + ": emitted only under a condition in Marshal (optional field); fixed-layout obligations skipped, round trip still checked"
					}
				}
				for _, f := range sc.Fields {
					if f.Unsup != "" && sc.Unsup == "" {
						sc.Unsup = f.Name + ": " + f.Unsup
					}
					if f.Restrict != "" {
						sc.Restrict = append(sc.Restrict, f.Name+": "+f.Restrict)
					}
				}
				out = append(out, sc)
			}
		}
	}
	sort.Slice(out, func(i, j int) bool { return out[i].Type < out[j].Type })
	return out
}

func typeIsAndX(pkg *packages.Package, tname string) bool {
	for _, file := range pkg.Syntax {
		for _, d := range file.Decls {
			fd, ok := d.(*ast.FuncDecl)
			if !ok || fd.Recv == nil || fd.Name.Name != "IsAndX" || fd.Body == nil {
				continue
			}
			rt := types.ExprString(fd.Recv.List[0].Type)
			if strings.TrimPrefix(rt, "*") != tname {
				continue
			}
			for _, s := range fd.Body.List {
				if r, ok := s.(*ast.ReturnStmt); ok && len(r.Results) == 1 {
					if id, ok := r.Results[0].(*ast.Ident); ok && id.Name == "true" {
						return true
					}
				}
			}
		}
	}
	return false
}

// marshalFacts scans the Marshal method of a command for (a) assignments `c.N = T(len(c.B))` and
// (b) if-statements whose body appends to rawParametersContent / rawDataContent.
func marshalFacts(pkg *packages.Package, tname string) (map[string]string, map[string]bool) {
	counts := map[string]string{}
	cond := map[string]bool{}
	for _, file := range pkg.Syntax {
		for _, d := range file.Decls {
			fd, ok := d.(*ast.FuncDecl)
			if !ok || fd.Recv == nil || fd.Name.Name != "Marshal" || fd.Body == nil {
				continue
			}
			if strings.TrimPrefix(types.ExprString(fd.Recv.List[0].Type), "*") != tname {
				continue
			}
			recv := ""
			if len(fd.Recv.List[0].Names) == 1 {
				recv = fd.Recv.List[0].Names[0].Name
			}
			recvField := func(e ast.Expr) (string, bool) {
				se, ok := e.(*ast.SelectorExpr)
				if !ok {
					return "", false
				}
				id, ok := se.X.(*ast.Ident)
				if !ok || id.Name != recv {
					return "", false
				}
				return se.Sel.Name, true
			}
			ast.Inspect(fd.Body, func(n ast.Node) bool {
				switch s := n.(type) {
				case *ast.AssignStmt:
					if len(s.Lhs) != 1 || len(s.Rhs) != 1 {
						return true
					}
					fn, ok := recvField(s.Lhs[0])
					if !ok {
						return true
					}
					conv, ok := s.Rhs[0].(*ast.CallExpr)
					if !ok || len(conv.Args) != 1 {
						return true
					}
					ln, ok := conv.Args[0].(*ast.CallExpr)
					if !ok || len(ln.Args) != 1 {
						return true
					}
					if id, ok := ln.Fun.(*ast.Ident); !ok || id.Name != "len" {
						return true
					}
					arg := types.ExprString(ln.Args[0])
					if recv != "c" {
						return true
					}
					counts[fn] = fmt.Sprintf("int(c.%s) == len(%s)", fn, arg)
				case *ast.IfStmt:
					emits := false
					ast.Inspect(s.Body, func(m ast.Node) bool {
						if as, ok := m.(*ast.AssignStmt); ok && len(as.Lhs) == 1 {
							if id, ok := as.Lhs[0].(*ast.Ident); ok && (id.Name == "rawParametersContent" || id.Name == "rawDataContent") {
								emits = true
							}
						}
						return true
					})
					if !emits {
						return true
					}
					ast.Inspect(s, func(m ast.Node) bool {
						if e, ok := m.(ast.Expr); ok {
							if fn, ok := recvField(e); ok {
								cond[fn] = true
							}
						}
						return true
					})
				}
				return true
			})
		}
	}
	return counts, cond
}

// unmarshalCounts scans the Unmarshal method for `c.B = raw[offset : offset+int(c.N)]`: the decoder takes the
// length of buffer B from count field N, so an internally consistent value has int(c.N) == len(c.B).
// The result is keyed by the buffer field (whose Req receives the relation).
func unmarshalCounts(pkg *packages.Package, tname string) map[string]string {
	out := map[string]string{}
	for _, file := range pkg.Syntax {
		for _, d := range file.Decls {
			fd, ok := d.(*ast.FuncDecl)
			if !ok || fd.Recv == nil || fd.Name.Name != "Unmarshal" || fd.Body == nil {
				continue
			}
			if strings.TrimPrefix(types.ExprString(fd.Recv.List[0].Type), "*") != tname {
				continue
			}
			if len(fd.Recv.List[0].Names) != 1 || fd.Recv.List[0].Names[0].Name != "c" {
				continue
			}
			ast.Inspect(fd.Body, func(n ast.Node) bool {
				as, ok := n.(*ast.AssignStmt)
				if !ok || len(as.Lhs) != 1 || len(as.Rhs) != 1 {
					return true
				}
				lhs, ok := as.Lhs[0].(*ast.SelectorExpr)
				if !ok {
					return true
				}
				if id, ok := lhs.X.(*ast.Ident); !ok || id.Name != "c" {
					return true
				}
				se, ok := as.Rhs[0].(*ast.SliceExpr)
				if !ok || se.High == nil {
					return true
				}
				be, ok := se.High.(*ast.BinaryExpr)
				if !ok || be.Op != token.ADD {
					return true
				}
				conv, ok := be.Y.(*ast.CallExpr)
				if !ok || len(conv.Args) != 1 {
					return true
				}
				if id, ok := conv.Fun.(*ast.Ident); !ok || id.Name != "int" {
					return true
				}
				cnt, ok := conv.Args[0].(*ast.SelectorExpr)
				if !ok {
					return true
				}
				if id, ok := cnt.X.(*ast.Ident); !ok || id.Name != "c" {
					return true
				}
				out[lhs.Sel.Name] = fmt.Sprintf("int(c.%s) == len(c.%s)", cnt.Sel.Name, lhs.Sel.Name)
				return true
			})
		}
	}
	return out
}

func bufferFormats(pkg *packages.Package, tname string) map[string]int {
	out := map[string]int{}
	for _, file := range pkg.Syntax {
		for _, d := range file.Decls {
			fd, ok := d.(*ast.FuncDecl)
			if !ok || fd.Recv == nil || fd.Name.Name != "Marshal" || fd.Body == nil {
				continue
			}
			if strings.TrimPrefix(types.ExprString(fd.Recv.List[0].Type), "*") != tname {
				continue
			}
			ast.Inspect(fd.Body, func(n ast.Node) bool {
				ce, ok := n.(*ast.CallExpr)
				if !ok || len(ce.Args) != 1 {
					return true
				}
				se, ok := ce.Fun.(*ast.SelectorExpr)
				if !ok || se.Sel.Name != "SetBufferFormat" {
					return true
				}
				fe, ok := se.X.(*ast.SelectorExpr)
				if !ok {
					return true
				}
				if tv, ok := pkg.TypesInfo.Types[ce.Args[0]]; ok && tv.Value != nil {
					if v, ok := constant.Int64Val(constant.ToInt(tv.Value)); ok {
						out[fe.Sel.Name] = int(v)
					}
				}
				return true
			})
		}
	}
	return out
}

func fillStringEnc(f *cmdField, k int) {
	f.IsString = true
	b := "c." + f.Name + ".Buffer"
	n := "len(" + b + ")"
	f.Req = n + " <= 65535"
	f.Keep = "eq(" + b + ", old(" + b + "))"
	f.ConstW = -1
	switch k {
	case 1, 5:
		f.Enc = fmt.Sprintf("cat(bytes(%d), le16(uint16(%s)), %s)", k, n, b)
		f.Width = "3 + " + n
	case 3:
		f.Enc = fmt.Sprintf("cat(bytes(3), le16(uint16(%s)), %s, bytes(0))", n, b)
		f.Width = "4 + " + n
	case 2, 4:
		f.Enc = fmt.Sprintf("cat(bytes(%d), %s, bytes(0))", k, b)
		f.Width = "2 + " + n
		// a string fits a NUL-terminated format only if it contains no NUL itself
		f.Req += fmt.Sprintf(" && forall(k, 0, %s, %s[k] != 0)", n, b)
	default:
		f.Unsup = fmt.Sprintf("unknown buffer format %d", k)
	}
}

// classifyField maps a field type to its MS-CIFS encoding.
func classifyField(name string, t types.Type, texpr ast.Expr) cmdField {
	f := cmdField{Name: name, ConstW: -1}
	acc := "c." + name
	te := types.ExprString(texpr)
	scalar := func(acc string, t types.Type) (enc, be string, w int, ok bool) {
		b, isB := t.Underlying().(*types.Basic)
		if !isB || b.Info()&types.IsInteger == 0 {
			return "", "", 0, false
		}
		switch intWidth(b) {
		case 8:
			return "bytes(uint8(" + acc + "))", "", 1, true
		case 16:
			return "le16(uint16(" + acc + "))", "be16(uint16(" + acc + "))", 2, true
		case 32:
			return "le32(uint32(" + acc + "))", "be32(uint32(" + acc + "))", 4, true
		case 64:
			return "le64(uint64(" + acc + "))", "be64(uint64(" + acc + "))", 8, true
		}
		return "", "", 0, false
	}
	if enc, be, w, ok := scalar(acc, t); ok {
		f.Enc, f.EncBE, f.ConstW, f.Width = enc, be, w, fmt.Sprint(w)
		f.Keep = acc + " == old(" + acc + ")"
		return f
	}
	tn := ""
	if n, ok := types.Unalias(t).(*types.Named); ok {
		tn = n.Obj().Name()
	}
	switch {
	case tn == "FILETIME":
		f.Enc = "cat(le32(" + acc + ".DwLowDateTime), le32(" + acc + ".DwHighDateTime))"
		f.ConstW, f.Width = 8, "8"
		f.Keep = acc + ".DwLowDateTime == old(" + acc + ".DwLowDateTime) && " + acc + ".DwHighDateTime == old(" + acc + ".DwHighDateTime)"
		if strings.HasSuffix(te, "SMB_TIME") {
			f.Unsup = "" // encoded as FILETIME by the library; MS-CIFS SMB_TIME is a 16-bit word (reported by the smb-time-width obligation)
		}
	case tn == "LARGE_INTEGER":
		f.Enc = "le64(uint64(" + acc + ".QuadPart))"
		f.EncBE = "be64(uint64(" + acc + ".QuadPart))"
		f.ConstW, f.Width = 8, "8"
		f.Keep = acc + ".QuadPart == old(" + acc + ".QuadPart)"
	case tn == "SMB_DATE":
		f.Enc = "le16((" + acc + ".Year-1980)<<9 | uint16(" + acc + ".Month)<<5 | uint16(" + acc + ".Day))"
		f.ConstW, f.Width = 2, "2"
		f.Req = acc + ".Year >= 1980 && " + acc + ".Year <= 2107 && " + acc + ".Month <= 15 && " + acc + ".Day <= 31"
		f.Keep = acc + ".Year == old(" + acc + ".Year) && " + acc + ".Month == old(" + acc + ".Month) && " + acc + ".Day == old(" + acc + ".Day)"
	case tn == "SMB_FILE_ATTRIBUTES":
		f.Enc = "le16(" + acc + ".Attributes)"
		f.EncBE = "be16(" + acc + ".Attributes)"
		f.ConstW, f.Width = 2, "2"
		f.Keep = acc + ".Attributes == old(" + acc + ".Attributes)"
	case tn == "SMB_NMPIPE_STATUS":
		f.Enc = "bytes(" + acc + ".ICount, " + acc + ".Flags)"
		f.ConstW, f.Width = 2, "2"
		f.Keep = acc + ".ICount == old(" + acc + ".ICount) && " + acc + ".Flags == old(" + acc + ".Flags)"
	case tn == "SMB_STRING":
		f.Enc = "@string"
	case tn == "OEM_STRING":
		f.Enc = "@string"
	default:
		switch u := t.Underlying().(type) {
		case *types.Array:
			var encs, bes, keeps []string
			tot := 0
			for i := 0; i < int(u.Len()); i++ {
				e, b, w, ok := scalar(fmt.Sprintf("%s[%d]", acc, i), u.Elem())
				if !ok {
					f.Unsup = "array of " + u.Elem().String()
					return f
				}
				encs = append(encs, e)
				if b == "" {
					b = e
				}
				bes = append(bes, b)
				tot += w
				keeps = append(keeps, fmt.Sprintf("%s[%d] == old(%s[%d])", acc, i, acc, i))
			}
			f.Enc = "cat(" + strings.Join(encs, ", ") + ")"
			if intWidth(u.Elem().Underlying().(*types.Basic)) > 8 {
				f.EncBE = "cat(" + strings.Join(bes, ", ") + ")"
			}
			f.ConstW, f.Width = tot, fmt.Sprint(tot)
			f.Keep = strings.Join(keeps, " && ")
		case *types.Slice:
			if b, ok := u.Elem().Underlying().(*types.Basic); ok && b.Kind() == types.Uint8 {
				f.Enc = acc
				f.Width = "len(" + acc + ")"
				f.Keep = "eq(" + acc + ", old(" + acc + "))"
			} else {
				// a list of structures (lock ranges, setup words, directory entries): the fixed part of the
				// command is checked on the instance whose list is empty, which the precondition says
				f.Enc = "bytes()"
				f.Width, f.ConstW = "0", 0
				f.Req = "len(" + acc + ") == 0"
				f.Keep = "len(" + acc + ") == 0"
				f.Restrict = "only instances with an empty list are covered (slice of " + u.Elem().String() + ")"
			}
		default:
			f.Unsup = "type " + t.String()
		}
	}
	return f
}

// MarshalContractText renders the schema contract of a command's Marshal.
func (sc *CmdSchema) MarshalContractText() string {
	var sb strings.Builder
	var params, data []cmdField
	for _, f := range sc.Fields {
		if f.Section == 0 {
			params = append(params, f)
		} else {
			data = append(data, f)
		}
	}
	sum := func(fs []cmdField) (string, int) {
		var parts []string
		cst := 0
		allConst := true
		for _, f := range fs {
			if f.ConstW >= 0 {
				cst += f.ConstW
			} else {
				allConst = false
				parts = append(parts, "("+f.Width+")")
			}
		}
		if allConst {
			return fmt.Sprint(cst), cst
		}
		return strings.Join(append([]string{fmt.Sprint(cst)}, parts...), " + "), -1
	}
	pb, pconst := sum(params)
	db, _ := sum(data)
	andx := 0
	if sc.AndX {
		andx = 4
	}
	wexpr := fmt.Sprintf("(%d + %s + 1) / 2", andx, pb)
	if pconst >= 0 {
		wexpr = fmt.Sprint((andx + pconst + 1) / 2)
	}
	// long chains of symbolic offsets (variable-length fields) are decided much faster over mathematical integers
	varLen := false
	for _, f := range sc.Fields {
		if f.ConstW < 0 {
			varLen = true
		}
	}
	if sc.NoLayout == "" {
		fmt.Fprintf(&sb, "//@ contract (*%s).Marshal\n", sc.Type)
		if varLen {
			fmt.Fprintf(&sb, "//@   prefer-int\n")
		}
		fmt.Fprintf(&sb, "//@   requires len(c.Command.Parameters.Words) == 0 && c.Command.Parameters.WordCount == 0 && len(c.Command.Data.Bytes) == 0\n")
		fmt.Fprintf(&sb, "//@   requires %s <= 65535 && %s <= 500\n", db, wexpr)
		for _, f := range sc.Fields {
			if f.Req != "" {
				fmt.Fprintf(&sb, "//@   requires %s\n", f.Req)
			}
		}
		fmt.Fprintf(&sb, "//@   ensures [C03,C04,C05:framing] err == nil && len(result0) == 3 + 2*(%s) + (%s) && int(result0[0]) == %s && int(u16le(result0, 1 + 2*(%s))) == %s\n", wexpr, db, wexpr, wexpr, db)
		if sc.AndX {
			fmt.Fprintf(&sb, "//@   ensures [C04,C05:andx-block] result0[1] == uint8(c.Command.AndX.AndXCommand) && result0[2] == c.Command.AndX.AndXReserved && (u16le(result0, 3) == c.Command.AndX.AndXOffset || u16be(result0, 3) == c.Command.AndX.AndXOffset)\n")
			fmt.Fprintf(&sb, "//@   ensures [C05:andx-offset-order] u16le(result0, 3) == c.Command.AndX.AndXOffset\n")
		}
		// parameter slots
		off := fmt.Sprintf("%d", 1+andx)
		for _, f := range params {
			hi := "(" + off + ") + (" + f.Width + ")"
			if f.EncBE != "" {
				fmt.Fprintf(&sb, "//@   ensures [C04:slot:%s] eq(sub(result0, %s, %s), %s) || eq(sub(result0, %s, %s), %s)\n", f.Name, off, hi, f.Enc, off, hi, f.EncBE)
				fmt.Fprintf(&sb, "//@   ensures [C05:byte-order:%s] eq(sub(result0, %s, %s), %s)\n", f.Name, off, hi, f.Enc)
			} else {
				fmt.Fprintf(&sb, "//@   ensures [C04,C05:slot:%s] eq(sub(result0, %s, %s), %s)\n", f.Name, off, hi, f.Enc)
			}
			off = hi
		}
		// data slots
		off = fmt.Sprintf("3 + 2*(%s)", wexpr)
		for _, f := range data {
			hi := "(" + off + ") + (" + f.Width + ")"
			if f.EncBE != "" {
				fmt.Fprintf(&sb, "//@   ensures [C04:slot:%s] eq(sub(result0, %s, %s), %s) || eq(sub(result0, %s, %s), %s)\n", f.Name, off, hi, f.Enc, off, hi, f.EncBE)
				fmt.Fprintf(&sb, "//@   ensures [C05:byte-order:%s] eq(sub(result0, %s, %s), %s)\n", f.Name, off, hi, f.Enc)
			} else {
				fmt.Fprintf(&sb, "//@   ensures [C04,C05:slot:%s] eq(sub(result0, %s, %s), %s)\n", f.Name, off, hi, f.Enc)
			}
			// MS-CIFS 2.2.1.1.4 / per-command definitions: file and directory names are SMB_STRINGs of
			// buffer format 0x04 (format 0x02 is reserved to the dialect strings of SMB_COM_NEGOTIATE); the
			// format byte the schema itself uses above is read from the code, so it is pinned separately
			if f.IsString && (strings.HasSuffix(f.Name, "FileName") || strings.HasSuffix(f.Name, "DirectoryName")) {
				fmt.Fprintf(&sb, "//@   ensures [C05:format-byte:%s] result0[%s] == 4\n", f.Name, off)
			}
			off = hi
		}
		var keeps []string
		for _, f := range sc.Fields {
			if f.Keep != "" {
				keeps = append(keeps, f.Keep)
			}
		}
		if len(keeps) > 0 {
			fmt.Fprintf(&sb, "//@   ensures [C04:fields-kept] %s\n", strings.Join(keeps, " && "))
		}
		fmt.Fprintf(&sb, "//@   ensures [C03,C04:re-encode] len(c.Command.Parameters.Words) == 0 && len(c.Command.Data.Bytes) == 0\n")
		fmt.Fprintf(&sb, "//@ end\n")
	}
	// round trip through the real decoder: the harness verifLemmaCmdRoundTrip_<T> (guarded file in the
	// commands package) encodes c and decodes the bytes into a fresh initialised structure q; both method bodies are expanded in the harness (no contract in between).
	var same []string
	for _, f := range sc.Fields {
		if f.Keep != "" {
			same = append(same, rtExpr(f.Keep))
		}
	}
	if len(same) > 0 {
		fmt.Fprintf(&sb, "//@ contract verifLemmaCmdRoundTrip_%s\n", sc.Type)
		if varLen {
			fmt.Fprintf(&sb, "//@   prefer-int\n")
		}
		fmt.Fprintf(&sb, "//@   expand %s).Marshal %s).Unmarshal\n", sc.Type, sc.Type)
		fmt.Fprintf(&sb, "//@   requires len(c.Command.Parameters.Words) == 0 && c.Command.Parameters.WordCount == 0 && len(c.Command.Data.Bytes) == 0\n")
		fmt.Fprintf(&sb, "//@   requires %s <= 65535 && %s <= 500\n", db, wexpr)
		for _, f := range sc.Fields {
			if f.Req != "" {
				fmt.Fprintf(&sb, "//@   requires %s\n", f.Req)
			}
		}
		fmt.Fprintf(&sb, "//@   ensures [C04:roundtrip-accepted] result1 == nil\n")
		for _, f := range sc.Fields {
			if f.Keep != "" {
				fmt.Fprintf(&sb, "//@   ensures [C04:roundtrip:%s] implies(result1 == nil, %s)\n", f.Name, rtExpr(f.Keep))
			}
		}
		fmt.Fprintf(&sb, "//@ end\n")
	}
	return sb.String()
}

var rtOld = regexp.MustCompile(`old\(c\.`)
var rtNew = regexp.MustCompile(`\bc\.`)

// rtExpr turns "c.F == old(c.F)" into "result2.F == c.F" (decoded structure against the original).
func rtExpr(keep string) string {
	s := rtOld.ReplaceAllString(keep, "\x00(")
	s = rtNew.ReplaceAllString(s, "result2.")
	return strings.ReplaceAll(s, "\x00(", "(c.")
}
