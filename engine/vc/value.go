package vc

import (
	"fmt"
	"go/types"
	"math/big"

	"golang.org/x/tools/go/ssa"
)

// ---------- array contents (Go-side symbolic structure; reads are resolved to scalar terms) ----------

// ArrC is the symbolic contents of an array of scalars: a total function index -> element.
type ArrC interface{ arrc() }

// ArrBase: uninterpreted function idx -> elem, named.
type ArrBase struct {
	Name string
	Elem Sort
}

// ArrStore: base with one element replaced.
type ArrStore struct {
	Base ArrC
	Idx  *Term
	Val  *Term
}

// ArrSplice: base with [DstOff, DstOff+N) replaced by Src[SrcOff, SrcOff+N).
type ArrSplice struct {
	Base   ArrC
	DstOff *Term
	Src    ArrC
	SrcOff *Term
	N      *Term
}

// ArrFill: every element is Val.
type ArrFill struct{ Val *Term }

// ArrLit: concrete prefix values, Rest elsewhere.
type ArrLit struct {
	Vals []*Term
	Rest ArrC
}

// ArrIte: merge.
type ArrIte struct {
	C    *Term
	A, B ArrC
}

// ArrFn: contents given by a Go closure (used for spec sequences).
type ArrFn struct {
	F  func(i *Term) *Term
	ID int
}

func (*ArrBase) arrc()   {}
func (*ArrStore) arrc()  {}
func (*ArrSplice) arrc() {}
func (*ArrFill) arrc()   {}
func (*ArrLit) arrc()    {}
func (*ArrIte) arrc()    {}
func (*ArrFn) arrc()     {}

// ---------- values ----------

type Val interface{}

// Scalars are *Term directly.

type StructVal struct {
	T      *types.Struct
	Named  types.Type
	Fields []Val
}

// ArrayVal: a Go array (fixed or backing array of a slice).
type ArrayVal struct {
	ElemT  types.Type
	Scalar bool
	Elem   Sort  // when Scalar
	C      ArrC  // when Scalar
	Len    *Term // index sort
	List   []Val // when !Scalar: concrete length
	Sym    string // when !Scalar and List == nil: symbolic list (elements are functions of name and index)
	SymMax *Term  // optional: upper bound on the length of string/slice elements of a symbolic list
	Conds  []*Term // optional, parallel to List: element i is present iff Conds[i] (conditional list built by if-converted appends)
	Unordered bool // elements were appended while ranging over a map: their order is not determined
}

type PathElem struct {
	Field int   // >=0: struct field
	Idx   *Term // non-nil: array index
}

type PtrVal struct {
	Obj  int // 0 = nil
	Path []PathElem
	T    types.Type // pointee type (may be nil for nil const)
}

type SliceVal struct {
	Obj   int // 0 = no backing (nil or empty)
	Path  []PathElem
	Off   *Term
	Len   *Term
	Cap   *Term
	Nil   *Term // Bool
	ElemT types.Type
}

type StringVal struct {
	C   ArrC
	Off *Term
	Len *Term
	// Tags: symbolic provenance (e.g. decimal rendering of a term)
	Tag *StrTag
}

// CondItem: literal present iff Cond.
type CondItem struct {
	Cond *Term
	Lit  string
}

// StrTag records how a string was produced (Sprintf etc.) as a list of segments.
type StrTag struct {
	Segs []StrSeg
}
type StrSeg struct {
	Kind string // "lit", "dec", "udec", "hex", "HEX", "str", "condjoin"
	Items []CondItem // condjoin: literals present under conditions, joined by Lit as separator
	Unordered bool
	Lit  string
	T    *Term
	W    int // min width for hex (zero padded); 0 = none
	S    *StringVal
	Signed bool
}

type IfaceVal struct {
	Dyn   types.Type // nil when unknown or nil interface
	V     Val
	IsNil *Term // Bool
	// Opaque: dynamic value unknown (e.g. error returned by abstracted call)
	Opaque bool
	ID     *Term // identity token for opaque values (BV64)
	Msg    *StringVal // error values built by errors.New / fmt.Errorf: the message (with its segment tag)
}

type TupleVal []Val

type FuncVal struct {
	Fn       *ssa.Function
	Bindings []Val
	Builtin  *ssa.Builtin
	Recv     Val // bound method receiver for interface method values (unused)
}

// MapVal: concrete-keyed map built by literals/updates with constant keys, or abstract.
type MapVal struct {
	Obj int
}

type MapState struct {
	KeyT, ValT types.Type
	// concrete entries in insertion order (keys are constant terms or constant strings)
	Keys     []Val
	Vals     []Val
	Abstract bool // unknown additional content
	Name     string
}

// TimeVal models time.Time as (sec, nsec) unbounded integers (Int sort).
type TimeVal struct {
	Sec  *Term
	Nsec *Term
}

// LazyVal: not yet materialised symbolic value of a type.
type LazyVal struct {
	T    types.Type
	Name string
}

// RangeIter for range over string / map
type IterVal struct {
	Ascii []*Term // range over a string of concrete length whose bytes are all provably ASCII: its bytes
	NoAscii bool  // checked: not provably ASCII
	Kind  string
	Str   *StringVal
	Pos   *Term
	Map   int
	Index int
}

// OpaqueVal: a value we cannot interpret; carries an identity.
type OpaqueVal struct {
	T    types.Type
	Name string
}

func (e *Exec) showVal(v Val) string {
	switch x := v.(type) {
	case nil:
		return "<nil>"
	case *Term:
		return e.C.Show(x)
	case *StructVal:
		s := "{"
		for i, f := range x.Fields {
			if i > 0 {
				s += ", "
			}
			s += e.showVal(f)
		}
		return s + "}"
	case *SliceVal:
		return fmt.Sprintf("slice(obj%d%v off=%s len=%s cap=%s)", x.Obj, x.Path, e.C.Show(x.Off), e.C.Show(x.Len), e.C.Show(x.Cap))
	case *PtrVal:
		return fmt.Sprintf("ptr(obj%d%v)", x.Obj, x.Path)
	case *StringVal:
		return fmt.Sprintf("string(len=%s)", e.C.Show(x.Len))
	case *IfaceVal:
		return fmt.Sprintf("iface(%v nil=%s)", x.Dyn, e.C.Show(x.IsNil))
	case TupleVal:
		s := "("
		for i, f := range x {
			if i > 0 {
				s += ", "
			}
			s += e.showVal(f)
		}
		return s + ")"
	}
	return fmt.Sprintf("%T", v)
}

// ---------- type helpers ----------

func isScalarType(t types.Type) bool {
	switch u := t.Underlying().(type) {
	case *types.Basic:
		return u.Info()&(types.IsInteger|types.IsBoolean) != 0 || u.Kind() == types.UnsafePointer
	}
	return false
}

func intWidth(b *types.Basic) int {
	switch b.Kind() {
	case types.Int8, types.Uint8:
		return 8
	case types.Int16, types.Uint16:
		return 16
	case types.Int32, types.Uint32:
		return 32
	case types.Int64, types.Uint64, types.Int, types.Uint, types.Uintptr, types.UnsafePointer:
		return 64
	case types.UntypedInt, types.UntypedRune:
		return 64
	}
	return 0
}

func isSigned(t types.Type) bool {
	if b, ok := t.Underlying().(*types.Basic); ok {
		return b.Info()&types.IsUnsigned == 0 && b.Info()&types.IsInteger != 0
	}
	return false
}

func isIntType(t types.Type) bool {
	if b, ok := t.Underlying().(*types.Basic); ok {
		return b.Info()&types.IsInteger != 0
	}
	return false
}
func isBoolType(t types.Type) bool {
	if b, ok := t.Underlying().(*types.Basic); ok {
		return b.Info()&types.IsBoolean != 0
	}
	return false
}
func isStringType(t types.Type) bool {
	if b, ok := t.Underlying().(*types.Basic); ok {
		return b.Info()&types.IsString != 0
	}
	return false
}
func isFloatType(t types.Type) bool {
	if b, ok := t.Underlying().(*types.Basic); ok {
		return b.Info()&(types.IsFloat|types.IsComplex) != 0
	}
	return false
}

// typeRange returns [lo, hi] of an integer type.
func typeRange(t types.Type) (lo, hi *big.Int) {
	b := t.Underlying().(*types.Basic)
	w := intWidth(b)
	if isSigned(t) {
		hi = new(big.Int).Sub(new(big.Int).Lsh(big.NewInt(1), uint(w-1)), big.NewInt(1))
		lo = new(big.Int).Neg(new(big.Int).Lsh(big.NewInt(1), uint(w-1)))
		return
	}
	return big.NewInt(0), mask(w)
}

func isTimeType(t types.Type) bool {
	if n, ok := t.(*types.Named); ok {
		o := n.Obj()
		return o.Pkg() != nil && o.Pkg().Path() == "time" && o.Name() == "Time"
	}
	return false
}

func namedPath(t types.Type) string {
	if p, ok := t.(*types.Pointer); ok {
		return "*" + namedPath(p.Elem())
	}
	if n, ok := t.(*types.Named); ok {
		o := n.Obj()
		if o.Pkg() != nil {
			return o.Pkg().Path() + "." + o.Name()
		}
		return o.Name()
	}
	return t.String()
}
