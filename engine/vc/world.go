package vc

import (
	"fmt"
	"go/ast"
	"go/types"
	"os"
	"path/filepath"
	"regexp"
	"sort"
	"strings"

	"golang.org/x/tools/go/packages"
	"golang.org/x/tools/go/ssa"
	"golang.org/x/tools/go/ssa/ssautil"
)

// World: loaded program + contracts + solver portfolio + hooks.
type World struct {
	Prog      *ssa.Program
	Pkgs      []*packages.Package
	Contracts map[string]*Contract
	Prelude   string
	PF        *Portfolio
	SpecDecls map[string]*Decl
	RepoDir   string
	Prop      string // property under check: postconditions tagged for other properties only are skipped

	AllocBudget func(e *Exec, st *State) *Term
	pruneFailed int // second attempts (with feasibility checks) that ended in a path explosion as well
	FrameCheck  func(e *Exec, st *State, p *PtrVal)
	mapHook     func(e *Exec, st *State, fr *Frame, in *ssa.MapUpdate, m *MapVal, k, v Val) bool
	lookupHook  func(e *Exec, st *State, fr *Frame, in *ssa.Lookup, m *MapVal, k Val) (Val, *Term, bool)
	specCall    func(env *SpecEnv, name string, n *ast.CallExpr) (sv, bool)
	SchemaFor   func(fn *ssa.Function) *Contract

	cur      *Contract // contract of the function being verified (for hints)
	globals  map[*ssa.Global]int
	FnByKey  map[string]*ssa.Function
	ContractFiles []string
	GlobalInit func(e *Exec, st *State, g *ssa.Global) (Val, bool)
	ifaceConv  map[string]map[string]bool
	implOf     map[string]*Contract
}

// Load loads packages (patterns relative to repo) with the verif tag and builds SSA.
func Load(repo string, patterns []string) (*World, error) {
	cfg := &packages.Config{Mode: packages.LoadAllSyntax, Dir: repo, BuildFlags: []string{"-tags=verif"}, Env: append(os.Environ(), "GOFLAGS=-mod=mod", "GOPROXY=off")}
	pkgs, err := packages.Load(cfg, patterns...)
	if err != nil {
		return nil, err
	}
	var errs []string
	packages.Visit(pkgs, nil, func(p *packages.Package) {
		for _, e := range p.Errors {
			errs = append(errs, e.Error())
		}
	})
	if len(errs) > 0 {
		return nil, fmt.Errorf("package errors: %s", strings.Join(errs, "; "))
	}
	prog, _ := ssautil.AllPackages(pkgs, ssa.InstantiateGenerics|ssa.GlobalDebug)
	prog.Build()
	w := &World{Prog: prog, Pkgs: pkgs, Contracts: map[string]*Contract{}, RepoDir: repo, globals: map[*ssa.Global]int{}, FnByKey: map[string]*ssa.Function{}, SpecDecls: map[string]*Decl{}}
	// contract files: *_verif.go in every module package that was loaded (including dependencies inside the module)
	seen := map[string]bool{}
	packages.Visit(pkgs, nil, func(p *packages.Package) {
		if !strings.HasPrefix(p.PkgPath, modulePath) || seen[p.PkgPath] {
			return
		}
		seen[p.PkgPath] = true
		if len(p.GoFiles) == 0 {
			return
		}
		dir := filepath.Dir(p.GoFiles[0])
		ms, _ := filepath.Glob(filepath.Join(dir, "*_verif.go"))
		sort.Strings(ms)
		for _, f := range ms {
			cs, err := ParseContractFile(f, p.PkgPath)
			if err != nil {
				errs = append(errs, err.Error())
				continue
			}
			w.ContractFiles = append(w.ContractFiles, f)
			for _, c := range cs {
				if prev, dup := w.Contracts[c.Key]; dup {
					base, ext := prev, c
					if prev.Extend && !c.Extend {
						base, ext = c, prev
					}
					if !ext.Extend {
						errs = append(errs, fmt.Sprintf("%s: duplicate contract for %s", f, c.Key))
					}
					base.Requires = append(base.Requires, ext.Requires...)
					base.Ensures = append(base.Ensures, ext.Ensures...)
					base.Loops = append(base.Loops, ext.Loops...)
					for k, v := range ext.Props {
						if v {
							base.Props[k] = true
						}
					}
					if ext.MaxPaths > base.MaxPaths {
						base.MaxPaths = ext.MaxPaths
					}
					w.Contracts[c.Key] = base
					continue
				}
				w.Contracts[c.Key] = c
			}
		}
	})
	if len(errs) > 0 {
		return nil, fmt.Errorf("contract errors: %s", strings.Join(errs, "; "))
	}
	// index functions
	for fn := range ssautil.AllFunctions(prog) {
		if fn.Synthetic != "" {
			continue
		}
		w.FnByKey[fn.String()] = fn
	}
	for k, ct := range w.Contracts {
		if ct.Lemma {
			continue
		}
		if _, ok := w.FnByKey[k]; !ok {
			if w.bindIfaceContract(ct) {
				continue
			}
			errs = append(errs, fmt.Sprintf("contract for unknown function %s", k))
		}
	}
	if len(errs) > 0 {
		return nil, fmt.Errorf("contract errors: %s", strings.Join(errs, "; "))
	}
	return w, nil
}

var declRe = regexp.MustCompile(`\((?:define-fun|declare-fun|define-fun-rec)\s+([^\s()]+)\s+\(([^)]*(?:\([^)]*\)[^)]*)*)\)\s+(\(_ BitVec \d+\)|Bool|Int)`)
var sortRe = regexp.MustCompile(`\(_ BitVec (\d+)\)|Bool|Int`)

// LoadPrelude reads spec library files and registers their function signatures.
func (w *World) LoadPrelude(files []string) error {
	var sb strings.Builder
	for _, f := range files {
		b, err := os.ReadFile(f)
		if err != nil {
			return err
		}
		sb.WriteString("; --- " + filepath.Base(f) + "\n")
		sb.Write(b)
		sb.WriteString("\n")
		for _, d := range parseDecls(string(b)) {
			w.SpecDecls[d.Name] = d
		}
	}
	w.Prelude = sb.String()
	return nil
}

func parseSort(s string) Sort {
	switch s {
	case "Bool":
		return BoolS
	case "Int":
		return IntS
	}
	var n int
	fmt.Sscanf(s, "(_ BitVec %d)", &n)
	return BV(n)
}

func (w *World) contractFor(fn *ssa.Function) *Contract {
	if fn.Origin() != nil {
		fn = fn.Origin()
	}
	if c, ok := w.Contracts[fn.String()]; ok {
		return c
	}
	if c, ok := w.implOf[fn.String()]; ok {
		return c // the method implements an interface method that has a contract
	}
	if w.SchemaFor != nil {
		return w.SchemaFor(fn)
	}
	return nil
}

func (w *World) hasLoopClauses(fn *ssa.Function, ord int) bool {
	c := w.Contracts[fn.String()]
	if c == nil {
		return false
	}
	for _, l := range c.Loops {
		if l.Loop == ord && (l.Kind == "invariant" || l.Kind == "decreases") {
			return true
		}
	}
	return false
}

func (w *World) loopClauses(fn *ssa.Function, ord int) []*LoopClause {
	c := w.Contracts[fn.String()]
	if c == nil {
		return nil
	}
	var out []*LoopClause
	for _, l := range c.Loops {
		if l.Loop == ord && l.Kind != "unroll" {
			out = append(out, l)
		}
	}
	return out
}

func (w *World) forceUnroll(fn *ssa.Function, ord int) bool { return w.unrollLimit(fn, ord) > 0 }

func (w *World) unrollLimit(fn *ssa.Function, ord int) int {
	if w.cur != nil {
		d := fnDisplay(fn)
		for _, u := range w.cur.UnrollIn {
			if u.Ord == ord && strings.HasSuffix(d, u.Fn) {
				return u.N
			}
		}
	}
	c := w.Contracts[fn.String()]
	if c == nil {
		return 0
	}
	for _, l := range c.Loops {
		if l.Loop == ord && l.Kind == "unroll" {
			return l.N
		}
	}
	return 0
}

func (w *World) lenHint(name string) (int, bool) {
	if w.cur == nil {
		return 0, false
	}
	n, ok := w.cur.Bounds[strings.TrimSuffix(name, ".")]
	return n, ok
}

// ifaceHint: dynamic type declared for an interface-typed location.
func (w *World) ifaceHint(name string, t types.Type) types.Type {
	if w.cur == nil {
		return nil
	}
	tn, ok := w.cur.Ifaces[strings.TrimSuffix(name, ".")]
	if !ok {
		return nil
	}
	return w.resolveType(tn)
}

// resolveType resolves "*pkg.Name" or "pkg.Name" (pkg = last path element) among loaded packages.
func (w *World) resolveType(tn string) types.Type {
	ptr := strings.HasPrefix(tn, "*")
	tn = strings.TrimPrefix(tn, "*")
	parts := strings.SplitN(tn, ".", 2)
	var res types.Type
	for _, p := range w.Prog.AllPackages() {
		if len(parts) == 2 && p.Pkg.Name() == parts[0] {
			if o := p.Pkg.Scope().Lookup(parts[1]); o != nil {
				if _, ok := o.(*types.TypeName); ok {
					res = o.Type()
					break
				}
			}
		}
	}
	if res == nil {
		return nil
	}
	if ptr {
		return types.NewPointer(res)
	}
	return res
}

func (w *World) invokeHook(e *Exec, st *State, fr *Frame, cc *ssa.CallCommon, in ssa.Instruction, rt types.Type, iv *IfaceVal) []callRes {
	return nil
}

// Solve discharges a query through the portfolio.
func (w *World) Solve(c *Ctx, asserts []*Term, timeoutS float64, getValues []*Term) *SolveResult {
	script := c.Script(w.Prelude, asserts, getValues)
	return w.PF.Solve(script, timeoutS)
}

// globalObj returns the heap object modelling a package-level variable.
// Module packages: the package initialiser is executed once (symbolically, on a scratch state) and its
// final heap provides the values of globals that are never assigned outside init; other globals are unknown.
func (w *World) globalObj(e *Exec, st *State, g *ssa.Global) (int, bool) {
	t := g.Type().(*types.Pointer).Elem()
	if e.initRunning != nil {
		if id, ok := e.globalIDs[g]; ok {
			if _, live := st.Heap[id]; live {
				return id, true
			}
		}
		e.nextObj++
		id := e.nextObj
		st.Heap[id] = e.zeroVal(st, t)
		e.metaAll[id] = &ObjMeta{T: t, Name: "global." + g.Name()}
		e.globalIDs[g] = id
		return id, true
	}
	if g.Pkg != nil && strings.HasPrefix(g.Pkg.Pkg.Path(), modulePath) {
		if ir := e.ensureInit(g.Pkg); ir != nil && !ir.mutated[g] {
			if id, ok := ir.ids[g]; ok {
				if _, live := st.Heap[id]; !live {
					for k, v := range ir.heap {
						if _, have := st.Heap[k]; !have {
							st.Heap[k] = v
						}
					}
					for k, v := range ir.maps {
						if _, have := st.Maps[k]; !have {
							st.Maps[k] = v
						}
					}
				}
				return id, true
			}
		}
	}
	if id, ok := e.globalIDs[g]; ok {
		if _, live := st.Heap[id]; !live {
			st.Heap[id] = &LazyVal{T: t, Name: "global." + g.Name()}
			if sentinelError(g) {
				st.Heap[id] = &IfaceVal{Opaque: true, IsNil: e.C.False()}
			}
		}
		return id, true
	}
	e.nextObj++
	id := e.nextObj
	st.Heap[id] = &LazyVal{T: t, Name: "global." + g.Name()}
	if sentinelError(g) {
		// var ErrX = errors.New(...) of a package outside the module, never reassigned: a non-nil error whose
		// identity is the variable
		st.Heap[id] = &IfaceVal{Opaque: true, IsNil: e.C.False()}
	}
	e.metaAll[id] = &ObjMeta{T: t, Name: "global." + g.Name()}
	e.globalIDs[g] = id
	return id, true
}

// sentinelError: g is a package-level `error` variable initialised by errors.New / fmt.Errorf in its package
// initialiser and stored to nowhere else in that package.
func sentinelError(g *ssa.Global) bool {
	if g.Pkg == nil {
		return false
	}
	pt, ok := g.Type().(*types.Pointer)
	if !ok || !types.Identical(pt.Elem(), types.Universe.Lookup("error").Type()) {
		return false
	}
	initFn := g.Pkg.Func("init")
	if initFn == nil {
		return false
	}
	found := false
	for _, m := range g.Pkg.Members {
		fn, ok := m.(*ssa.Function)
		if !ok || fn.Blocks == nil {
			continue
		}
		for _, b := range fn.Blocks {
			for _, in := range b.Instrs {
				st, ok := in.(*ssa.Store)
				if !ok || st.Addr != ssa.Value(g) {
					continue
				}
				if fn != initFn {
					return false
				}
				call, ok := st.Val.(*ssa.Call)
				if !ok {
					return false
				}
				callee := call.Call.StaticCallee()
				if callee == nil || (callee.String() != "errors.New" && callee.String() != "fmt.Errorf") {
					return false
				}
				found = true
			}
		}
	}
	return found
}

type initResult struct {
	heap    map[int]Val
	maps    map[int]*MapState
	ids     map[*ssa.Global]int
	mutated map[*ssa.Global]bool
}

func (e *Exec) ensureInit(pkg *ssa.Package) (res *initResult) {
	if r, ok := e.inits[pkg]; ok {
		return r
	}
	e.inits[pkg] = nil
	initFn := pkg.Func("init")
	if initFn == nil || initFn.Blocks == nil {
		return nil
	}
	// globals assigned outside the initialiser are not constant
	mutated := map[*ssa.Global]bool{}
	var scan func(fn *ssa.Function)
	seen := map[*ssa.Function]bool{}
	scan = func(fn *ssa.Function) {
		if fn == nil || seen[fn] || fn.Blocks == nil {
			return
		}
		seen[fn] = true
		isInit := fn == initFn || strings.HasPrefix(fn.Name(), "init#")
		for _, b := range fn.Blocks {
			for _, in := range b.Instrs {
				if s, ok := in.(*ssa.Store); ok && !isInit {
					if g, ok := s.Addr.(*ssa.Global); ok {
						mutated[g] = true
					}
				}
				if mc, ok := in.(*ssa.MakeClosure); ok {
					scan(mc.Fn.(*ssa.Function))
				}
			}
		}
		for _, a := range fn.AnonFuncs {
			scan(a)
		}
	}
	for _, m := range pkg.Members {
		switch x := m.(type) {
		case *ssa.Function:
			scan(x)
		case *ssa.Type:
			for _, t := range []types.Type{x.Type(), types.NewPointer(x.Type())} {
				ms := e.Prog.MethodSets.MethodSet(t)
				for i := 0; i < ms.Len(); i++ {
					scan(e.Prog.MethodValue(ms.At(i)))
				}
			}
		}
	}
	// run the initialiser on a scratch state, silently
	saveObls, saveSteps, saveIDs := e.Obls, e.Steps, e.globalIDs
	e.globalIDs = map[*ssa.Global]int{}
	e.initRunning = pkg
	st := &State{Heap: map[int]Val{}, Maps: map[int]*MapState{}, Record: &WriteRec{Objs: map[int]bool{}}}
	var outs []Outcome
	func() {
		defer func() {
			if r := recover(); r != nil {
				if _, ok := r.(Bail); ok {
					outs = nil
					return
				}
				if _, ok := r.(restartCut); ok {
					outs = nil
					return
				}
				panic(r)
			}
		}()
		e.stack = append(e.stack, initFn)
		defer func() { e.stack = e.stack[:len(e.stack)-1] }()
		outs = e.execFunc(st, initFn, nil, nil, 1)
	}()
	ids := e.globalIDs
	e.initRunning = nil
	e.globalIDs = saveIDs
	e.Obls = saveObls
	e.Steps = saveSteps
	if len(outs) != 1 || outs[0].St.Dead {
		e.Notes = append(e.Notes, "package initialiser of "+pkg.Pkg.Path()+" could not be evaluated: its globals are treated as unknown")
		return nil
	}
	fs := outs[0].St
	for g, id := range ids {
		if mv, ok := fs.Heap[id].(*MapVal); ok && mv.Obj != 0 {
			if ms := fs.Maps[mv.Obj]; ms != nil && ms.Name == "" {
				ns := *ms
				ns.Name = "global." + g.Name()
				fs.Maps[mv.Obj] = &ns
			}
		}
	}
	// objects allocated by the package initialiser exist before the verified call: they are not "fresh" results
	for id := range fs.Heap {
		if m := e.metaAll[id]; m != nil {
			m.Fresh = false
		}
	}
	res = &initResult{heap: fs.Heap, maps: fs.Maps, ids: ids, mutated: mutated}
	e.inits[pkg] = res
	return res
}

// parseDecls extracts the signatures of define-fun / declare-fun / define-fun-rec commands.
func parseDecls(src string) []*Decl {
	var out []*Decl
	// strip comments
	var sb strings.Builder
	for _, l := range strings.Split(src, "\n") {
		if i := strings.IndexByte(l, ';'); i >= 0 {
			l = l[:i]
		}
		sb.WriteString(l)
		sb.WriteByte(' ')
	}
	toks := tokenizeSexp(sb.String())
	// walk top-level forms
	i := 0
	var parse func() interface{}
	parse = func() interface{} {
		if i >= len(toks) {
			return nil
		}
		t := toks[i]
		i++
		if t != "(" {
			return t
		}
		var l []interface{}
		for i < len(toks) && toks[i] != ")" {
			l = append(l, parse())
		}
		i++
		return l
	}
	sortOf := func(x interface{}) (Sort, bool) {
		switch v := x.(type) {
		case string:
			if v == "Bool" {
				return BoolS, true
			}
			if v == "Int" {
				return IntS, true
			}
		case []interface{}:
			if len(v) == 3 && v[0] == "_" && v[1] == "BitVec" {
				var n int
				fmt.Sscanf(v[2].(string), "%d", &n)
				return BV(n), true
			}
		}
		return Sort{}, false
	}
	for i < len(toks) {
		f, ok := parse().([]interface{})
		if !ok || len(f) < 4 {
			continue
		}
		head, _ := f[0].(string)
		name, _ := f[1].(string)
		args, _ := f[2].([]interface{})
		d := &Decl{Name: name}
		good := true
		switch head {
		case "define-fun", "define-fun-rec":
			for _, a := range args {
				pa, ok := a.([]interface{})
				if !ok || len(pa) != 2 {
					good = false
					break
				}
				so, ok := sortOf(pa[1])
				if !ok {
					good = false
					break
				}
				d.Args = append(d.Args, so)
			}
		case "declare-fun":
			for _, a := range args {
				so, ok := sortOf(a)
				if !ok {
					good = false
					break
				}
				d.Args = append(d.Args, so)
			}
		default:
			continue
		}
		ret, ok := sortOf(f[3])
		if !good || !ok {
			continue
		}
		d.Ret = ret
		out = append(out, d)
	}
	return out
}

func tokenizeSexp(s string) []string {
	var toks []string
	cur := ""
	flush := func() {
		if cur != "" {
			toks = append(toks, cur)
			cur = ""
		}
	}
	for _, r := range s {
		switch r {
		case '(', ')':
			flush()
			toks = append(toks, string(r))
		case ' ', '\t', '\n', '\r':
			flush()
		default:
			cur += string(r)
		}
	}
	flush()
	return toks
}

// bindIfaceContract recognises `contract (Iface).Method` and collects the implementing methods of the module.
func (w *World) bindIfaceContract(ct *Contract) bool {
	name := strings.TrimSpace(ct.Func)
	if !strings.HasPrefix(name, "(") || strings.HasPrefix(name, "(*") {
		return false
	}
	i := strings.Index(name, ").")
	if i < 0 {
		return false
	}
	tname, mname := name[1:i], name[i+2:]
	var it *types.Interface
	var named types.Type
	for _, p := range w.Prog.AllPackages() {
		if p.Pkg.Path() != ct.PkgPath {
			continue
		}
		if o, ok := p.Pkg.Scope().Lookup(tname).(*types.TypeName); ok {
			if x, ok := o.Type().Underlying().(*types.Interface); ok {
				it, named = x, o.Type()
			}
		}
	}
	if it == nil {
		return false
	}
	found := false
	for k := 0; k < it.NumMethods(); k++ {
		if it.Method(k).Name() == mname {
			found = true
		}
	}
	if !found {
		return false
	}
	_ = named
	ct.Iface = true
	var impls []string
	for _, p := range w.Prog.AllPackages() {
		if !strings.HasPrefix(p.Pkg.Path(), modulePath) {
			continue
		}
		sc := p.Pkg.Scope()
		for _, n := range sc.Names() {
			tn, ok := sc.Lookup(n).(*types.TypeName)
			if !ok || tn.IsAlias() {
				continue
			}
			if _, isI := tn.Type().Underlying().(*types.Interface); isI {
				continue
			}
			for _, t := range []types.Type{tn.Type(), types.NewPointer(tn.Type())} {
				if !types.Implements(t, it) {
					continue
				}
				// structural typing makes many unrelated types "implement" small interfaces: count only types
				// that the program actually converts to this interface
				if !w.convertedTo(t, named) {
					continue
				}
				sel := w.Prog.MethodSets.MethodSet(t).Lookup(p.Pkg, mname)
				if sel == nil {
					continue
				}
				fn := w.Prog.MethodValue(sel)
				if fn == nil || fn.Synthetic != "" || fn.Blocks == nil {
					continue // promoted through embedding: the embedded type's own method is checked
				}
				impls = append(impls, fn.String())
				w.FnByKey[fn.String()] = fn
				break
			}
		}
	}
	sort.Strings(impls)
	ct.Impls = impls
	if w.implOf == nil {
		w.implOf = map[string]*Contract{}
	}
	for _, k := range impls {
		if _, own := w.Contracts[k]; !own && !ct.Abstract {
			w.implOf[k] = ct
		}
	}
	return true
}

// ifaceContract finds the contract of an interface method.
func (w *World) ifaceContract(t types.Type, method string) *Contract {
	nt, ok := t.(*types.Named)
	if !ok || nt.Obj().Pkg() == nil {
		return nil
	}
	return w.Contracts["("+nt.Obj().Pkg().Path()+"."+nt.Obj().Name()+")."+method]
}

// convertedTo: does some MakeInterface instruction of the module convert a value of type t to interface type it?
func (w *World) convertedTo(t types.Type, it types.Type) bool {
	if w.ifaceConv == nil {
		w.ifaceConv = map[string]map[string]bool{}
		for fn := range ssautil.AllFunctions(w.Prog) {
			if fn.Blocks == nil || !strings.HasPrefix(pkgPathOf(fn), modulePath) {
				continue
			}
			for _, b := range fn.Blocks {
				for _, in := range b.Instrs {
					if mi, ok := in.(*ssa.MakeInterface); ok {
						k := mi.Type().String()
						if w.ifaceConv[k] == nil {
							w.ifaceConv[k] = map[string]bool{}
						}
						w.ifaceConv[k][mi.X.Type().String()] = true
					}
				}
			}
		}
	}
	return w.ifaceConv[it.String()][t.String()]
}
