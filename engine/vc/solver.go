package vc

import (
	"context"
	"crypto/sha256"
	"encoding/hex"
	"fmt"
	"os"
	"os/exec"
	"path/filepath"
	"regexp"
	"strings"
	"sync"
	"time"
)

type SolveResult struct {
	Status string // sat unsat unknown timeout error
	Solver string
	TimeS  float64
	Values map[string]string // term text -> value text (from get-value)
	Ordered []string // values in request order
	Raw    string
	Hash   string
	All    map[string]string // per-solver status (thorough)
}

type SolverSpec struct {
	Name string
	Args func(file string, timeoutS float64) []string
}

var Solvers = []SolverSpec{
	{"cvc5", func(f string, t float64) []string {
		return []string{"cvc5", fmt.Sprintf("--tlimit=%d", int(t*1000)), f}
	}},
	{"z3-new", func(f string, t float64) []string {
		return []string{"z3-new", fmt.Sprintf("-T:%d", int(t+0.999)), f}
	}},
	{"z3", func(f string, t float64) []string {
		return []string{"z3", fmt.Sprintf("-T:%d", int(t+0.999)), f}
	}},
}

type Portfolio struct {
	Dir      string
	Prelude  string
	mu       sync.Mutex
	cache    map[string]*SolveResult
	sem      chan struct{}
	Total    map[string]float64
	Wins     map[string]int
	Queries  int
	AllAgree bool // thorough: run all solvers to completion and compare
	Disagree []string
	seq      int
}

func NewPortfolio(dir string, par int) *Portfolio {
	os.MkdirAll(dir, 0o755)
	return &Portfolio{Dir: dir, cache: map[string]*SolveResult{}, sem: make(chan struct{}, par), Total: map[string]float64{}, Wins: map[string]int{}}
}

var valRe = regexp.MustCompile(`^\s*\(\s*(.+?)\s+(#x[0-9a-fA-F]+|#b[01]+|true|false|\(- \d+\)|-?\d+|\(_ bv\d+ \d+\))\s*\)\s*$`)

// Solve runs the portfolio on a script.
func (p *Portfolio) Solve(script string, timeoutS float64) *SolveResult {
	h := sha256.Sum256([]byte(script))
	hs := hex.EncodeToString(h[:8])
	p.mu.Lock()
	if r, ok := p.cache[hs]; ok && (r.Status == "sat" || r.Status == "unsat") {
		p.mu.Unlock()
		return r
	}
	p.Queries++
	p.seq++
	file := filepath.Join(p.Dir, fmt.Sprintf("q%d_%s.smt2", p.seq, hs))
	p.mu.Unlock()
	if err := os.WriteFile(file, []byte(script), 0o644); err != nil {
		return &SolveResult{Status: "error", Raw: err.Error(), Hash: hs}
	}
	defer os.Remove(file)
	type one struct {
		name   string
		status string
		out    string
		t      float64
	}
	ctx, cancel := context.WithCancel(context.Background())
	defer cancel()
	ch := make(chan one, len(Solvers))
	for _, s := range Solvers {
		s := s
		go func() {
			p.sem <- struct{}{}
			defer func() { <-p.sem }()
			if ctx.Err() != nil {
				ch <- one{s.Name, "cancelled", "", 0}
				return
			}
			args := s.Args(file, timeoutS)
			c2, cancel2 := context.WithTimeout(ctx, time.Duration((timeoutS+2)*float64(time.Second)))
			defer cancel2()
			t0 := time.Now()
			cmd := exec.CommandContext(c2, args[0], args[1:]...)
			out, _ := cmd.CombinedOutput()
			dt := time.Since(t0).Seconds()
			txt := string(out)
			first := strings.TrimSpace(strings.SplitN(txt, "\n", 2)[0])
			st := "unknown"
			switch {
			case first == "sat":
				st = "sat"
			case first == "unsat":
				st = "unsat"
			case strings.Contains(first, "timeout") || c2.Err() != nil:
				st = "timeout"
			case strings.HasPrefix(first, "(error") || strings.Contains(first, "rror"):
				st = "error"
			}
			ch <- one{s.Name, st, txt, dt}
		}()
	}
	res := &SolveResult{Status: "unknown", Hash: hs, All: map[string]string{}}
	var raws []string
	got := 0
	for got < len(Solvers) {
		o := <-ch
		got++
		p.mu.Lock()
		p.Total[o.name] += o.t
		p.mu.Unlock()
		res.All[o.name] = o.status
		if o.status == "sat" || o.status == "unsat" {
			if res.Status == "sat" || res.Status == "unsat" {
				if res.Status != o.status {
					p.mu.Lock()
					p.Disagree = append(p.Disagree, fmt.Sprintf("%s: %s=%s vs %s=%s", hs, res.Solver, res.Status, o.name, o.status))
					p.mu.Unlock()
				}
				continue
			}
			res.Status = o.status
			res.Solver = o.name
			res.TimeS = o.t
			res.Raw = o.out
			if o.status == "sat" {
				res.Values, res.Ordered = parseValues(o.out)
			}
			p.mu.Lock()
			p.Wins[o.name]++
			p.mu.Unlock()
			if !p.AllAgree {
				cancel()
				break
			}
		} else if o.status != "cancelled" {
			raws = append(raws, o.name+": "+strings.TrimSpace(firstN(o.out, 300)))
			if o.status == "timeout" && res.Status == "unknown" {
				res.Status = "timeout"
			}
			if o.t > res.TimeS && res.Solver == "" {
				res.TimeS = o.t
			}
		}
	}
	if res.Status != "sat" && res.Status != "unsat" {
		res.Raw = strings.Join(raws, " | ")
	}
	p.mu.Lock()
	p.cache[hs] = res
	p.mu.Unlock()
	return res
}

func firstN(s string, n int) string {
	if len(s) > n {
		return s[:n]
	}
	return s
}

// parseValues parses a (get-value ...) answer: ((t v) (t v) ...), one pair per line typically.
func parseValues(out string) (map[string]string, []string) {
	vals := map[string]string{}
	var ord []string
	i := strings.Index(out, "\n")
	if i < 0 {
		return vals, ord
	}
	body := strings.TrimSpace(out[i+1:])
	if !strings.HasPrefix(body, "(") {
		return vals, ord
	}
	// tokenize into top-level pairs
	depth := 0
	start := -1
	for k := 0; k < len(body); k++ {
		switch body[k] {
		case '|':
			// skip quoted symbol
			j := strings.IndexByte(body[k+1:], '|')
			if j < 0 {
				return vals, ord
			}
			k += j + 1
		case '(':
			depth++
			if depth == 2 {
				start = k
			}
		case ')':
			if depth == 2 && start >= 0 {
				pair := body[start : k+1]
				if m := valRe.FindStringSubmatch(strings.ReplaceAll(pair, "\n", " ")); m != nil {
					vals[m[1]] = m[2]
					ord = append(ord, m[2])
				} else {
					ord = append(ord, "?")
				}
				start = -1
			}
			depth--
		}
	}
	return vals, ord
}

// Quick runs a single fast solver first (for the many small Houdini queries), then the others on demand.
func (p *Portfolio) Quick(script string, timeoutS float64) *SolveResult {
	h := sha256.Sum256([]byte(script))
	hs := hex.EncodeToString(h[:8])
	p.mu.Lock()
	if r, ok := p.cache[hs]; ok && (r.Status == "sat" || r.Status == "unsat") {
		p.mu.Unlock()
		return r
	}
	p.seq++
	file := filepath.Join(p.Dir, fmt.Sprintf("h%d_%s.smt2", p.seq, hs))
	p.mu.Unlock()
	if err := os.WriteFile(file, []byte(script), 0o644); err != nil {
		return &SolveResult{Status: "error"}
	}
	defer os.Remove(file)
	type ans struct {
		name, first string
		dt          float64
	}
	ctx, cancel := context.WithTimeout(context.Background(), time.Duration((timeoutS+1)*float64(time.Second)))
	defer cancel()
	ch := make(chan ans, 2)
	n := 0
	for _, s := range Solvers {
		if s.Name != "cvc5" && s.Name != "z3-new" {
			continue
		}
		n++
		s := s
		go func() {
			args := s.Args(file, timeoutS)
			t0 := time.Now()
			out, _ := exec.CommandContext(ctx, args[0], args[1:]...).CombinedOutput()
			ch <- ans{s.Name, strings.TrimSpace(strings.SplitN(string(out), "\n", 2)[0]), time.Since(t0).Seconds()}
		}()
	}
	for i := 0; i < n; i++ {
		a := <-ch
		p.mu.Lock()
		p.Total[a.name] += a.dt
		p.mu.Unlock()
		if a.first == "sat" || a.first == "unsat" {
			cancel()
			r := &SolveResult{Status: a.first, Solver: a.name, TimeS: a.dt, Hash: hs}
			p.mu.Lock()
			p.Queries++
			p.cache[hs] = r
			p.mu.Unlock()
			return r
		}
	}
	return &SolveResult{Status: "unknown", Hash: hs}
}
