package vc

import (
	"fmt"
	"go/types"
	"strings"

	"golang.org/x/tools/go/ssa"
)

// A small, exact model of regexp.MatchString for the fully anchored patterns this code base uses:
// sequences of literal bytes and byte classes with fixed repetition counts, optional groups `( ... )?`
// and the (?i) flag. Such a pattern denotes finitely many *shapes* (one per choice of the optional
// groups); each shape is a fixed-length sequence of byte sets. Anything else is reported unsupported and
// the call is abstracted.

type byteSet [256]bool

type rxItem struct {
	set byteSet
	lit int // >= 0: single literal byte
}

type rxShape []rxItem

func parseRegexShapes(pat string) ([]rxShape, bool) {
	fold := false
	if strings.HasPrefix(pat, "(?i)") {
		fold = true
		pat = pat[4:]
	}
	if !strings.HasPrefix(pat, "^") || !strings.HasSuffix(pat, "$") || strings.HasSuffix(pat, "\\$") {
		return nil, false
	}
	pat = pat[1 : len(pat)-1]
	p := &rxParser{s: pat, fold: fold}
	shapes, ok := p.seq(0)
	if !ok || p.i != len(p.s) {
		return nil, false
	}
	return shapes, true
}

type rxParser struct {
	s    string
	i    int
	fold bool
}

func (p *rxParser) mkLit(b byte) rxItem {
	var it rxItem
	it.lit = int(b)
	it.set[b] = true
	if p.fold {
		if b >= 'a' && b <= 'z' {
			it.set[b-32] = true
			it.lit = -1
		} else if b >= 'A' && b <= 'Z' {
			it.set[b+32] = true
			it.lit = -1
		}
	}
	return it
}

// seq parses a concatenation until ')' or end; returns all shapes.
func (p *rxParser) seq(depth int) ([]rxShape, bool) {
	shapes := []rxShape{{}}
	for p.i < len(p.s) {
		ch := p.s[p.i]
		var alts []rxShape // shapes of this atom
		switch ch {
		case ')':
			if depth == 0 {
				return nil, false
			}
			return shapes, true
		case '(':
			p.i++
			if strings.HasPrefix(p.s[p.i:], "?") {
				return nil, false // non-capturing / flags inside: unsupported
			}
			inner, ok := p.seq(depth + 1)
			if !ok || p.i >= len(p.s) || p.s[p.i] != ')' {
				return nil, false
			}
			p.i++
			alts = inner
		case '[':
			j := strings.IndexByte(p.s[p.i:], ']')
			if j < 0 {
				return nil, false
			}
			body := p.s[p.i+1 : p.i+j]
			p.i += j + 1
			var it rxItem
			it.lit = -1
			if strings.HasPrefix(body, "^") {
				return nil, false
			}
			for k := 0; k < len(body); k++ {
				if body[k] == '\\' {
					return nil, false
				}
				if k+2 < len(body) && body[k+1] == '-' {
					for b := int(body[k]); b <= int(body[k+2]); b++ {
						it.set[b] = true
					}
					k += 2
				} else {
					it.set[body[k]] = true
				}
			}
			if p.fold {
				for b := 'a'; b <= 'z'; b++ {
					if it.set[b] || it.set[b-32] {
						it.set[b], it.set[b-32] = true, true
					}
				}
			}
			alts = []rxShape{{it}}
		case '\\':
			if p.i+1 >= len(p.s) {
				return nil, false
			}
			e := p.s[p.i+1]
			if strings.IndexByte(`{}()[].\/-+*?|^$`, e) < 0 {
				return nil, false // \d \s \w ...: unsupported
			}
			p.i += 2
			alts = []rxShape{{p.mkLit(e)}}
		case '|', '*', '+', '.', '?', '{':
			return nil, false
		default:
			p.i++
			alts = []rxShape{{p.mkLit(ch)}}
		}
		// postfix: {n} or ?
		if p.i < len(p.s) && p.s[p.i] == '{' {
			j := strings.IndexByte(p.s[p.i:], '}')
			if j < 0 {
				return nil, false
			}
			var n int
			if _, err := fmt.Sscanf(p.s[p.i+1:p.i+j], "%d", &n); err != nil || strings.Contains(p.s[p.i+1:p.i+j], ",") || n > 128 {
				return nil, false
			}
			p.i += j + 1
			rep := []rxShape{{}}
			for r := 0; r < n; r++ {
				var nx []rxShape
				for _, a := range rep {
					for _, b := range alts {
						nx = append(nx, append(append(rxShape{}, a...), b...))
					}
				}
				rep = nx
				if len(rep) > 64 {
					return nil, false
				}
			}
			alts = rep
		} else if p.i < len(p.s) && p.s[p.i] == '?' {
			p.i++
			alts = append([]rxShape{{}}, alts...)
		}
		var nx []rxShape
		for _, a := range shapes {
			for _, b := range alts {
				nx = append(nx, append(append(rxShape{}, a...), b...))
			}
		}
		shapes = nx
		if len(shapes) > 64 {
			return nil, false
		}
	}
	if depth != 0 {
		return nil, false
	}
	return shapes, true
}

// setTerm: the predicate "b is in set" as a term.
func (e *Exec) setTerm(b *Term, set *byteSet) *Term {
	c := e.C
	es := b.S
	num := func(v int) *Term { return c.NumConst(bigi(int64(v)), es) }
	r := c.False()
	for lo := 0; lo < 256; lo++ {
		if !set[lo] {
			continue
		}
		hi := lo
		for hi+1 < 256 && set[hi+1] {
			hi++
		}
		if lo == hi {
			r = c.Or(r, c.Eq(b, num(lo)))
		} else {
			r = c.Or(r, c.And(c.Le(num(lo), b, false), c.Le(b, num(hi), false)))
		}
		lo = hi
	}
	return r
}

// StrFact: what a successful match established about a string (identified by contents/offset terms).
type StrFact struct {
	C     ArrC
	Off   *Term
	Shape rxShape
}

// intrRegexMatchString(pattern, s) (bool, error): one path per shape (matched, length fixed) plus one path
// for "no match". On matched paths the per-position byte sets are recorded for Split/Contains/indexing.
func intrRegexMatchString(e *Exec, st *State, fr *Frame, args []Val, in ssa.Instruction, rt types.Type) []callRes {
	pat, ok1 := args[0].(*StringVal)
	s, ok2 := args[1].(*StringVal)
	c := e.C
	nilErr := &IfaceVal{IsNil: c.True()}
	abstract := func() []callRes {
		e.noteAbstract(st, "regexp.MatchString with an unsupported pattern")
		return []callRes{{st, TupleVal{c.Fresh("rxmatch", BoolS), nilErr}}}
	}
	if !ok1 || !ok2 {
		return abstract()
	}
	ps, isC := concreteString(pat)
	if !isC {
		return abstract()
	}
	shapes, ok := parseRegexShapes(ps)
	if !ok {
		return abstract()
	}
	e.UsedIntrinsics["regexp.MatchString: exact shape model for anchored literal/class patterns ("+fmt.Sprint(len(shapes))+" shapes)"] = true
	if have, ok := e.knownShape(st, s); ok {
		possible := false
		for _, sh := range shapes {
			if len(sh) != len(have) {
				continue
			}
			sub, disjoint := true, false
			for i := range sh {
				inter := false
				for b := 0; b < 256; b++ {
					if have[i].set[b] && !sh[i].set[b] {
						sub = false
					}
					if have[i].set[b] && sh[i].set[b] {
						inter = true
					}
				}
				if !inter {
					disjoint = true
				}
			}
			if sub {
				return []callRes{{st, TupleVal{c.True(), nilErr}}}
			}
			if !disjoint {
				possible = true
			}
		}
		if !possible {
			return []callRes{{st, TupleVal{c.False(), nilErr}}}
		}
	}
	var rs []callRes
	noMatch := c.True()
	for _, sh := range shapes {
		cond := c.Eq(s.Len, e.idx(int64(len(sh))))
		for i := range sh {
			b := e.sel(s.C, c.Add(s.Off, e.idx(int64(i))))
			if sh[i].lit >= 0 {
				cond = c.And(cond, c.Eq(b, c.NumConst(bigi(int64(sh[i].lit)), b.S)))
			} else {
				cond = c.And(cond, e.setTerm(b, &sh[i].set))
			}
		}
		noMatch = c.And(noMatch, c.Not(cond))
		if cond.IsFalse() {
			continue
		}
		s2 := st.clone()
		s2.assume(cond)
		if s2.Dead {
			continue
		}
		s2.StrFacts = append(s2.StrFacts[:len(s2.StrFacts):len(s2.StrFacts)], &StrFact{C: s.C, Off: s.Off, Shape: sh})
		rs = append(rs, callRes{s2, TupleVal{c.True(), nilErr}})
	}
	st.assume(noMatch)
	if !st.Dead {
		rs = append(rs, callRes{st, TupleVal{c.False(), nilErr}})
	}
	return rs
}

// knownShape returns the recorded shape of a string (matched earlier on this path), if any.
func (e *Exec) knownShape(st *State, s *StringVal) (rxShape, bool) {
	if cs, isC := concreteString(s); isC {
		return litShape(cs), true
	}
	for i := len(st.StrFacts) - 1; i >= 0; i-- {
		f := st.StrFacts[i]
		if f.C == s.C && f.Off == s.Off && s.Len.IsConst() == false {
			return f.Shape, true
		}
		if f.C == s.C && f.Off == s.Off && s.Len.IsConst() && int(s.Len.C.Int64()) == len(f.Shape) {
			return f.Shape, true
		}
		// substring of a matched string with constant relative offset and length
		if f.C == s.C && s.Len.IsConst() {
			d := e.C.Sub(s.Off, f.Off)
			if d.IsConst() && d.C.IsInt64() {
				o, n := int(d.C.Int64()), int(s.Len.C.Int64())
				if o >= 0 && o+n <= len(f.Shape) {
					return f.Shape[o : o+n], true
				}
			}
		}
	}
	return nil, false
}

// splitByShape: exact Split of a string whose shape is known and decides, for every position, whether the
// byte can equal the separator.
func (e *Exec) splitByShape(st *State, s *StringVal, sh rxShape, sep byte) ([]Val, bool) {
	var parts []Val
	start := 0
	for i := 0; i <= len(sh); i++ {
		isSep := false
		if i < len(sh) {
			if sh[i].lit == int(sep) {
				isSep = true
			} else if sh[i].set[sep] {
				return nil, false // undecided position
			}
		}
		if isSep || i == len(sh) {
			sub := &StringVal{C: s.C, Off: e.C.Add(s.Off, e.idx(int64(start))), Len: e.idx(int64(i - start))}
			parts = append(parts, sub)
			start = i + 1
		}
	}
	return parts, true
}

func init() {
	intrinsics["regexp.MatchString"] = intrRegexMatchString
}

var _ = types.Typ

// strings.Replace(s, old, new, n) for a string of known shape, a one-byte `old` that every position decides,
// and n < 0 (all occurrences) or strings.ReplaceAll: exact. The result is a fresh constant-length string whose
// shape is recorded in turn.
func intrReplace(e *Exec, st *State, fr *Frame, args []Val, in ssa.Instruction, rt types.Type) []callRes {
	s, ok0 := args[0].(*StringVal)
	oldS, ok1 := args[1].(*StringVal)
	newS, ok2 := args[2].(*StringVal)
	all := true
	if len(args) > 3 {
		n, okn := constInt(args[3])
		all = okn && n < 0
	}
	if ok0 && ok1 && ok2 && all {
		o, c1 := concreteString(oldS)
		nw, c2 := concreteString(newS)
		if sh, ok := e.knownShape(st, s); ok && c1 && c2 && len(o) == 1 {
			var vals []*Term
			var nsh rxShape
			decided := true
			es := e.elemSort(types.Typ[types.Uint8])
			for i := range sh {
				if sh[i].lit == int(o[0]) {
					for k := 0; k < len(nw); k++ {
						var it rxItem
						it.lit = int(nw[k])
						it.set[nw[k]] = true
						nsh = append(nsh, it)
						vals = append(vals, e.C.NumConst(bigi(int64(nw[k])), es))
					}
					continue
				}
				if sh[i].set[o[0]] {
					decided = false
					break
				}
				nsh = append(nsh, sh[i])
				vals = append(vals, e.sel(s.C, e.C.Add(s.Off, e.idx(int64(i)))))
			}
			if decided {
				cont := &ArrLit{Vals: vals, Rest: &ArrFill{Val: zeroOf(e.C, es)}}
				r := &StringVal{C: cont, Off: e.idx(0), Len: e.idx(int64(len(vals)))}
				st.StrFacts = append(st.StrFacts[:len(st.StrFacts):len(st.StrFacts)], &StrFact{C: cont, Off: r.Off, Shape: nsh})
				return []callRes{{st, r}}
			}
		}
		if s.Tag != nil || true {
			if cs, isC := concreteString(s); isC && c1 && c2 {
				return []callRes{{st, e.strConst(strings.ReplaceAll(cs, o, nw))}}
			}
		}
	}
	e.noteAbstract(st, "strings.Replace on a string of unknown shape")
	return []callRes{{st, e.freshString(st, "replace", 0)}}
}

// strings.ToLower on a string of known shape: exact per-byte ASCII mapping (every position is ASCII when
// its byte set is).
func (e *Exec) lowerByShape(st *State, s *StringVal, sh rxShape, upper bool) (*StringVal, bool) {
	c := e.C
	es := e.elemSort(types.Typ[types.Uint8])
	vals := make([]*Term, len(sh))
	nsh := make(rxShape, len(sh))
	for i := range sh {
		for b := 128; b < 256; b++ {
			if sh[i].set[b] {
				return nil, false
			}
		}
		bt := e.sel(s.C, c.Add(s.Off, e.idx(int64(i))))
		var it rxItem
		it.lit = -1
		anyCase := false
		for b := 0; b < 128; b++ {
			if !sh[i].set[b] {
				continue
			}
			m := b
			if !upper && b >= 'A' && b <= 'Z' {
				m = b + 32
				anyCase = true
			}
			if upper && b >= 'a' && b <= 'z' {
				m = b - 32
				anyCase = true
			}
			it.set[m] = true
		}
		cnt, last := 0, 0
		for b := 0; b < 128; b++ {
			if it.set[b] {
				cnt++
				last = b
			}
		}
		if cnt == 1 {
			it.lit = last
		}
		nsh[i] = it
		if !anyCase {
			vals[i] = bt
		} else if e.IntMode {
			return nil, false
		} else if !upper {
			vals[i] = c.Ite(c.And(c.ULe(c.BVu('A', 8), bt), c.ULe(bt, c.BVu('Z', 8))), c.Add(bt, c.BVu(32, 8)), bt)
		} else {
			vals[i] = c.Ite(c.And(c.ULe(c.BVu('a', 8), bt), c.ULe(bt, c.BVu('z', 8))), c.Sub(bt, c.BVu(32, 8)), bt)
		}
	}
	cont := &ArrLit{Vals: vals, Rest: &ArrFill{Val: zeroOf(c, es)}}
	r := &StringVal{C: cont, Off: e.idx(0), Len: e.idx(int64(len(vals)))}
	st.StrFacts = append(st.StrFacts[:len(st.StrFacts):len(st.StrFacts)], &StrFact{C: cont, Off: r.Off, Shape: nsh})
	return r, true
}

func init() {
	intrinsics["strings.Replace"] = intrReplace
	intrinsics["strings.ReplaceAll"] = intrReplace
}
