package vc

import (
	"encoding/hex"
	"encoding/json"
	"fmt"
	"go/types"
	"math/big"
	"os"
	"os/exec"
	"path/filepath"
	"sort"
	"strconv"
	"strings"
	"time"

	"golang.org/x/tools/go/ssa"
)

// ReplayResult describes an attempt to reproduce a failed obligation on the real code.
type ReplayResult struct {
	Reproduced bool              `json:"reproduced"`
	Note       string            `json:"note"`
	Inputs     map[string]string `json:"inputs,omitempty"`
	TestSource string            `json:"test_source,omitempty"`
	Output     string            `json:"output,omitempty"`
	Failed     []string          `json:"failed_clauses,omitempty"`
	Cmd        string            `json:"cmd,omitempty"`
}

// CV: concrete value tree.
type CV struct {
	K      string // int bool bytes struct ptr time list iface zero
	T      types.Type
	I      *big.Int
	B      bool
	Elems  []*big.Int // scalar slice / array / string bytes
	Nil    bool
	Cap    int
	Beyond []*big.Int // contents between len and cap
	Fields []*CV
	Elem   *CV
	List   []*CV
	Sec    *big.Int
	Nsec   *big.Int
	Dyn    types.Type
}

type replayer struct {
	w      *World
	r      *FnResult
	model  map[string]*big.Int
	bools  map[string]bool
	arrays map[string][]*big.Int
	ct     *Contract
	imports map[string]string // path -> name
	parseOK map[string]bool
	parseVal map[string]*big.Int
	parseSigned map[string]bool
	pkg    *types.Package
	unbuildable string // an input the replay cannot construct (non-nil value of an interface type without a known implementation)
}

func parseSMTValue(s string) (*big.Int, bool, bool) {
	s = strings.TrimSpace(s)
	switch {
	case s == "true":
		return nil, true, true
	case s == "false":
		return nil, false, true
	case strings.HasPrefix(s, "#x"):
		v, ok := new(big.Int).SetString(s[2:], 16)
		return v, false, ok
	case strings.HasPrefix(s, "#b"):
		v, ok := new(big.Int).SetString(s[2:], 2)
		return v, false, ok
	case strings.HasPrefix(s, "(- "):
		v, ok := new(big.Int).SetString(strings.TrimSuffix(s[3:], ")"), 10)
		if ok {
			v.Neg(v)
		}
		return v, false, ok
	case strings.HasPrefix(s, "(_ bv"):
		f := strings.Fields(s[5:])
		v, ok := new(big.Int).SetString(f[0], 10)
		return v, false, ok
	}
	v, ok := new(big.Int).SetString(s, 10)
	return v, false, ok
}

// Replay tries to reproduce obligation o of function result r against the real code.
func Replay(w *World, r *FnResult, o *Obligation, repo, tmp string) *ReplayResult {
	res := &ReplayResult{}
	defer func() {
		if x := recover(); x != nil {
			res.Note = fmt.Sprintf("replay generator failed: %v", x)
		}
	}()
	if o != nil && o.Closed {
		res.Reproduced = true
		res.Note = "closed evaluation of the current tree's package initialiser against its declared constants: " + o.Raw
		return res
	}
	if o == nil || o.Status != "sat" {
		res.Note = "solver returned no model (" + statusOf(o) + "): no input to replay"
		return res
	}
	e := r.Exec
	if e == nil || e.Replay == nil {
		res.Note = "no replay information"
		return res
	}
	c := r.Ctx
	rp := &replayer{w: w, r: r, model: map[string]*big.Int{}, bools: map[string]bool{}, arrays: map[string][]*big.Int{}, ct: r.Contract, imports: map[string]string{}, parseOK: map[string]bool{}, parseVal: map[string]*big.Int{}, parseSigned: map[string]bool{}}
	if e.Root.Pkg != nil {
		rp.pkg = e.Root.Pkg.Pkg
	}
	// phase 1: scalar inputs
	var names []string
	for n, d := range c.Decls {
		if len(d.Args) == 0 && !strings.Contains(n, "!") || (len(d.Args) == 0 && (strings.HasPrefix(n, "ghost.") || true)) {
			names = append(names, n)
		}
	}
	sort.Strings(names)
	base := append([]*Term{}, o.Assume...)
	if !o.Cover {
		base = append(base, c.Not(o.Goal))
	}
	used := usedNames(base)
	var qn []string
	var qt []*Term
	for _, n := range names {
		if !used[n] {
			continue
		}
		qn = append(qn, n)
		qt = append(qt, c.Var(n, c.Decls[n].Ret))
	}
	// uninterpreted parse functions applied to input strings: ask for their values too
	type parseApp struct {
		t    *Term
		name string // strid var name
		ok   bool
	}
	var papps []parseApp
	{
		seen := map[*Term]bool{}
		var rec func(t *Term)
		rec = func(t *Term) {
			if seen[t] {
				return
			}
			seen[t] = true
			if t.Op == "app" && (t.Name == "parse_ok" || strings.HasPrefix(t.Name, "parse_val_")) && len(t.Args) == 3 && t.Args[0].Op == "var" {
				papps = append(papps, parseApp{t: t, name: t.Args[0].Name, ok: t.Name == "parse_ok"})
			}
			for _, a := range t.Args {
				rec(a)
			}
		}
		for _, t := range base {
			rec(t)
		}
	}
	nScalar := len(qt)
	for _, pa := range papps {
		qt = append(qt, pa.t)
		qn = append(qn, "")
	}
	// prefer small models: iterative deepening on the input lengths
	var lenVars []*Term
	for i, n := range qn {
		if (strings.HasSuffix(n, ".len") || strings.HasSuffix(n, ".cap")) && !strings.Contains(n, "!") {
			lenVars = append(lenVars, qt[i])
		}
	}
	var sr *SolveResult
	for _, bound := range []int64{0, 1, 2, 4, 8, 16, 64, 1024, 1 << 17} {
		if len(lenVars) == 0 {
			break
		}
		var small []*Term
		for _, t := range lenVars {
			if t.S.IsBV() {
				small = append(small, c.ULe(t, c.BVu(uint64(bound), t.S.W)))
			} else if t.S.IsInt() {
				small = append(small, c.ILe(t, c.Inti(bound)))
			}
		}
		sr = w.Solve(c, append(append([]*Term{}, base...), small...), 10, qt)
		if sr.Status == "sat" {
			break
		}
	}
	if sr == nil || sr.Status != "sat" {
		sr = w.Solve(c, base, 20, qt)
	}
	if sr.Status != "sat" || len(sr.Ordered) != len(qt) {
		res.Note = fmt.Sprintf("could not obtain model values (status %s, %d/%d values): %s", sr.Status, len(sr.Ordered), len(qt), firstN(sr.Raw, 300))
		return res
	}
	var pins []*Term
	res.Inputs = map[string]string{}
	for i, n := range qn {
		v, b, ok := parseSMTValue(sr.Ordered[i])
		if !ok {
			continue
		}
		if i >= nScalar {
			pa := papps[i-nScalar]
			key := strings.TrimSuffix(strings.TrimPrefix(pa.name, "strid."), ".arr")
			if pa.ok {
				rp.parseOK[key] = b
				pins = append(pins, c.Eq(pa.t, c.Bool(b)))
			} else {
				if pa.t.S.IsBV() && strings.Contains(pa.t.Name, "BitVec") {
					rp.parseVal[key] = v
				} else {
					rp.parseVal[key] = v
				}
				rp.parseSigned[key] = true
				pins = append(pins, c.Eq(pa.t, c.NumConst(v, pa.t.S)))
			}
			continue
		}
		if qt[i].S.IsBool() {
			rp.bools[n] = b
			pins = append(pins, c.Eq(qt[i], c.Bool(b)))
		} else {
			if qt[i].S.IsBV() {
				rp.model[n] = v
			} else {
				rp.model[n] = v
			}
			pins = append(pins, c.Eq(qt[i], c.NumConst(v, qt[i].S)))
		}
		if !strings.Contains(n, "!") {
			res.Inputs[n] = sr.Ordered[i]
		}
	}
	// phase 2: array contents for input arrays
	var an []string
	var at []*Term
	type slot struct {
		name string
		idx  int
	}
	var slots []slot
	for n, d := range c.Decls {
		if len(d.Args) == 1 && strings.HasSuffix(n, ".arr") && !strings.Contains(n, "!") && used[n] {
			an = append(an, n)
		}
	}
	sort.Strings(an)
	for _, n := range an {
		ln := 0
		baseName := strings.TrimSuffix(n, ".arr")
		if v, ok := rp.model[baseName+".cap"]; ok && v.IsInt64() {
			ln = int(v.Int64())
		} else if v, ok := rp.model[baseName+".len"]; ok && v.IsInt64() {
			ln = int(v.Int64())
		} else {
			ln = 64 // fixed arrays: ask for a prefix
		}
		if ln > 1<<17+16 {
			res.Note = fmt.Sprintf("model needs an input of %d elements (%s): too large to replay", ln, baseName)
			return res
		}
		d := c.Decls[n]
		for i := 0; i < ln; i++ {
			at = append(at, c.App(n, d.Ret, c.NumConst(big.NewInt(int64(i)), d.Args[0])))
			slots = append(slots, slot{n, i})
		}
		rp.arrays[n] = make([]*big.Int, ln)
	}
	if len(at) > 0 {
		sr2 := w.Solve(c, append(append([]*Term{}, base...), pins...), 30, at)
		if sr2.Status != "sat" || len(sr2.Ordered) != len(at) {
			res.Note = fmt.Sprintf("could not obtain array contents (status %s)", sr2.Status)
			return res
		}
		for i, sl := range slots {
			v, _, ok := parseSMTValue(sr2.Ordered[i])
			if !ok {
				v = big.NewInt(0)
			}
			rp.arrays[sl.name][sl.idx] = v
		}
	}
	// build concrete arguments
	fn := e.Root
	w.cur = rp.ct
	var cvs []*CV
	for i, p := range fn.Params {
		cvs = append(cvs, rp.cv(p.Type(), e.Replay.Params[i], 0))
	}
	if rp.unbuildable != "" {
		res.Note = "counterexample not replayable: " + rp.unbuildable
		return res
	}
	src := rp.testSource(fn, cvs)
	res.TestSource = src
	// run through overlay
	os.MkdirAll(tmp, 0o755)
	dir := filepath.Dir(w.Prog.Fset.Position(fn.Pos()).Filename)
	testPath := filepath.Join(dir, "govc_replay_gen_test.go")
	tf := filepath.Join(tmp, fmt.Sprintf("replay_%d_test.go", os.Getpid()))
	ov := filepath.Join(tmp, fmt.Sprintf("overlay_%d.json", os.Getpid()))
	os.WriteFile(tf, []byte(src), 0o644)
	ob, _ := json.Marshal(map[string]interface{}{"Replace": map[string]string{testPath: tf}})
	os.WriteFile(ov, ob, 0o644)
	defer os.Remove(tf)
	defer os.Remove(ov)
	cmd := exec.Command("go", "test", "-tags", "verif", "-overlay", ov, "-vet=off", "-count=1", "-v", "-timeout", "60s", "-run", "^TestGovcReplayGen$", ".")
	cmd.Dir = dir
	cmd.Env = append(os.Environ(), "GOFLAGS=-mod=mod", "GOPROXY=off")
	res.Cmd = "cd " + dir + " && go test -tags verif -overlay <ov> -vet=off -count=1 -timeout 60s -run ^TestGovcReplayGen$ ."
	t0 := time.Now()
	out, _ := cmd.CombinedOutput()
	_ = t0
	txt := string(out)
	res.Output = firstN(txt, 4000)
	if strings.Contains(txt, "GOVC-PANIC:") {
		res.Reproduced = true
		res.Note = "the real code panics on the solver's input"
		return res
	}
	if strings.Contains(txt, "panic: test timed out") {
		res.Reproduced = true
		res.Note = "the real code does not terminate within 60s on the solver's input"
		return res
	}
	if strings.Contains(txt, "fatal error:") || strings.Contains(txt, "out of memory") {
		res.Reproduced = true
		res.Note = "the real code crashes (fatal error) on the solver's input"
		return res
	}
	if !strings.Contains(txt, "GOVC-RESULT:") {
		res.Note = "replay test did not run to completion (build error?)"
		return res
	}
	if rp.ct == nil || len(rp.ct.Ensures) == 0 {
		res.Note = "no panic observed on the solver's input"
		return res
	}
	failed, note := rp.evalPost(fn, cvs, txt)
	res.Failed = failed
	if len(failed) > 0 {
		res.Reproduced = true
		res.Note = "postcondition(s) false on the real code's observed result for the solver's input"
	} else {
		res.Note = "counterexample not reproduced: " + note
	}
	return res
}

func statusOf(o *Obligation) string {
	if o == nil {
		return "none"
	}
	return o.Status
}

func usedNames(ts []*Term) map[string]bool {
	used := map[string]bool{}
	bound := map[string]bool{}
	seen := map[*Term]bool{}
	var rec func(t *Term)
	rec = func(t *Term) {
		if seen[t] {
			return
		}
		seen[t] = true
		if t.Op == "var" || t.Op == "app" {
			used[t.Name] = true
		}
		if t.Op == "forall" {
			for i := 0; i < t.P[0]; i++ {
				bound[t.Args[i].Name] = true
			}
		}
		for _, a := range t.Args {
			rec(a)
		}
	}
	for _, t := range ts {
		rec(t)
	}
	for n := range bound {
		delete(used, n)
	}
	return used
}

func (rp *replayer) num(name string, t types.Type) *big.Int {
	v, ok := rp.model[name]
	if !ok {
		return big.NewInt(0)
	}
	if isIntType(t) && isSigned(t) && !rp.r.Exec.IntMode {
		w := intWidth(t.Underlying().(*types.Basic))
		return toSigned(v, w)
	}
	return v
}

func fieldName(name string, f *types.Var) string {
	if strings.HasSuffix(name, ".") || name == "" {
		return name + f.Name()
	}
	return name + "." + f.Name()
}

func (rp *replayer) arr(name string, n int) []*big.Int {
	a := rp.arrays[name+".arr"]
	out := make([]*big.Int, n)
	for i := 0; i < n; i++ {
		if i < len(a) && a[i] != nil {
			out[i] = a[i]
		} else {
			out[i] = big.NewInt(0)
		}
	}
	return out
}

func (rp *replayer) cv(t types.Type, name string, depth int) *CV {
	if isTimeType(t) {
		s, ok := rp.model[name+".sec"]
		if !ok {
			s = big.NewInt(0)
		}
		ns, ok := rp.model[name+".nsec"]
		if !ok {
			ns = big.NewInt(0)
		}
		return &CV{K: "time", T: t, Sec: s, Nsec: ns}
	}
	switch u := t.Underlying().(type) {
	case *types.Basic:
		switch {
		case isBoolType(t):
			return &CV{K: "bool", T: t, B: rp.bools[name]}
		case isIntType(t):
			return &CV{K: "int", T: t, I: rp.num(name, t)}
		case isStringType(t):
			n := 0
			if v, ok := rp.model[name+".len"]; ok {
				n = int(v.Int64())
			}
			if okp, has := rp.parseOK[name]; has && n > 0 {
				// the string is consumed by strconv: build it from the modelled parse result
				str := "x"
				if okp {
					v := rp.parseVal[name]
					if v == nil {
						v = big.NewInt(0)
					}
					if !rp.r.Exec.IntMode {
						v = toSigned(v, 64)
					}
					str = v.String()
				}
				cv := &CV{K: "bytes", T: t}
				for i := 0; i < len(str); i++ {
					cv.Elems = append(cv.Elems, big.NewInt(int64(str[i])))
				}
				return cv
			}
			return &CV{K: "bytes", T: t, Elems: rp.arr(name, n)}
		}
		return &CV{K: "zero", T: t}
	case *types.Pointer:
		if depth > 5 {
			return &CV{K: "zero", T: t}
		}
		return &CV{K: "ptr", T: t, Elem: rp.cv(u.Elem(), name+".", depth+1)}
	case *types.Slice:
		if !isScalarType(u.Elem()) {
			n, ok := rp.w.lenHint(name)
			if !ok {
				return &CV{K: "zero", T: t}
			}
			cv := &CV{K: "list", T: t}
			for i := 0; i < n; i++ {
				cv.List = append(cv.List, rp.cv(u.Elem(), fmt.Sprintf("%s[%d]", name, i), depth+1))
			}
			return cv
		}
		n := 0
		if v, ok := rp.model[name+".len"]; ok {
			n = int(v.Int64())
		} else if h, ok := rp.w.lenHint(name); ok {
			n = h
		}
		cp := n
		if v, ok := rp.model[name+".cap"]; ok && v.IsInt64() && int(v.Int64()) >= n {
			cp = int(v.Int64())
		}
		full := rp.arr(name, cp)
		cv := &CV{K: "bytes", T: t, Elems: full[:n], Cap: cp, Nil: rp.bools[name+".isnil"] && cp == 0}
		if cp > n {
			cv.Beyond = full[n:]
		}
		return cv
	case *types.Struct:
		cv := &CV{K: "struct", T: t}
		for i := 0; i < u.NumFields(); i++ {
			cv.Fields = append(cv.Fields, rp.cv(u.Field(i).Type(), fieldName(name, u.Field(i)), depth+1))
		}
		return cv
	case *types.Array:
		if isScalarType(u.Elem()) {
			return &CV{K: "bytes", T: t, Elems: rp.arr(name, int(u.Len()))}
		}
		cv := &CV{K: "list", T: t}
		for i := 0; i < int(u.Len()); i++ {
			cv.List = append(cv.List, rp.cv(u.Elem(), fmt.Sprintf("%s[%d]", name, i), depth+1))
		}
		return cv
	case *types.Interface:
		if hint := rp.w.ifaceHint(name, t); hint != nil {
			return &CV{K: "iface", T: t, Dyn: hint, Elem: rp.cv(hint, name, depth+1)}
		}
		if isnil, have := rp.bools[strings.TrimSuffix(name, ".")+".isnil"]; have && !isnil && rp.unbuildable == "" {
			rp.unbuildable = fmt.Sprintf("input %s must be a non-nil %s, which the replay cannot construct", strings.TrimSuffix(name, "."), types.TypeString(t, nil))
		}
		return &CV{K: "zero", T: t}
	}
	return &CV{K: "zero", T: t}
}

// ---- Go source generation ----

func (rp *replayer) qual(p *types.Package) string {
	if p == rp.pkg {
		return ""
	}
	rp.imports[p.Path()] = p.Name()
	return p.Name()
}

func (rp *replayer) typeStr(t types.Type) string { return types.TypeString(t, rp.qual) }

func (rp *replayer) src(cv *CV) string {
	ts := rp.typeStr(cv.T)
	switch cv.K {
	case "int":
		return fmt.Sprintf("%s(%s)", parenType(ts), cv.I.String())
	case "bool":
		return fmt.Sprintf("%s(%v)", ts, cv.B)
	case "time":
		rp.imports["time"] = "time"
		return fmt.Sprintf("time.Unix(%s, %s).UTC()", cv.Sec, cv.Nsec)
	case "bytes":
		if isStringType(cv.T) {
			b := make([]byte, len(cv.Elems))
			for i, x := range cv.Elems {
				b[i] = byte(x.Uint64())
			}
			return fmt.Sprintf("%s(%s)", ts, strconv.Quote(string(b)))
		}
		if cv.Nil {
			return fmt.Sprintf("%s(nil)", parenType(ts))
		}
		var sb strings.Builder
		for i, x := range cv.Elems {
			if i > 0 {
				sb.WriteString(", ")
			}
			sb.WriteString(x.String())
		}
		if _, isArr := cv.T.Underlying().(*types.Array); isArr || cv.Cap <= len(cv.Elems) {
			return fmt.Sprintf("%s{%s}", ts, sb.String())
		}
		for _, x := range cv.Beyond {
			sb.WriteString(", ")
			sb.WriteString(x.String())
		}
		return fmt.Sprintf("func() %s { b := make(%s, %d, %d); copy(b, %s{%s}); return b[:%d] }()", ts, ts, cv.Cap, cv.Cap, ts, strings.TrimPrefix(sb.String(), ", "), len(cv.Elems))
	case "struct":
		st := cv.T.Underlying().(*types.Struct)
		var parts []string
		for i, f := range cv.Fields {
			fv := st.Field(i)
			if !fv.Exported() && fv.Pkg() != rp.pkg {
				continue
			}
			if f.K == "zero" {
				continue
			}
			parts = append(parts, fmt.Sprintf("%s: %s", fv.Name(), rp.src(f)))
		}
		return fmt.Sprintf("%s{%s}", ts, strings.Join(parts, ", "))
	case "ptr":
		et := rp.typeStr(cv.T.Underlying().(*types.Pointer).Elem())
		if cv.Elem.K == "struct" {
			return "&" + rp.src(cv.Elem)
		}
		return fmt.Sprintf("func() *%s { v := %s; return &v }()", et, rp.src(cv.Elem))
	case "list":
		var parts []string
		for _, x := range cv.List {
			parts = append(parts, rp.src(x))
		}
		return fmt.Sprintf("%s{%s}", ts, strings.Join(parts, ", "))
	case "iface":
		return rp.src(cv.Elem)
	}
	// zero value
	switch cv.T.Underlying().(type) {
	case *types.Pointer, *types.Slice, *types.Map, *types.Interface, *types.Signature, *types.Chan:
		return fmt.Sprintf("%s(nil)", parenType(ts))
	}
	return fmt.Sprintf("*new(%s)", ts)
}

func parenType(ts string) string {
	if strings.HasPrefix(ts, "*") || strings.HasPrefix(ts, "[]") || strings.HasPrefix(ts, "func") || strings.HasPrefix(ts, "<-") {
		return "(" + ts + ")"
	}
	return ts
}

const dumpHelper = `
func govcDump(v reflect.Value, depth int) interface{} {
	if !v.IsValid() || depth > 6 { return nil }
	if v.Type().PkgPath() == "time" && v.Type().Name() == "Time" && v.CanInterface() {
		t := v.Interface().(time.Time)
		return map[string]interface{}{"sec": fmt.Sprint(t.Unix()), "nsec": fmt.Sprint(t.Nanosecond())}
	}
	switch v.Kind() {
	case reflect.Bool:
		return v.Bool()
	case reflect.Int, reflect.Int8, reflect.Int16, reflect.Int32, reflect.Int64:
		return fmt.Sprint(v.Int())
	case reflect.Uint, reflect.Uint8, reflect.Uint16, reflect.Uint32, reflect.Uint64, reflect.Uintptr:
		return fmt.Sprint(v.Uint())
	case reflect.String:
		return map[string]interface{}{"hex": hex.EncodeToString([]byte(v.String()))}
	case reflect.Slice, reflect.Array:
		if v.Kind() == reflect.Slice && v.IsNil() { return map[string]interface{}{"nil": true, "elems": []interface{}{}} }
		n := v.Len()
		if n > 1<<20 { n = 1 << 20 }
		el := make([]interface{}, n)
		for i := 0; i < n; i++ { el[i] = govcDump(v.Index(i), depth+1) }
		return map[string]interface{}{"elems": el}
	case reflect.Struct:
		m := map[string]interface{}{}
		for i := 0; i < v.NumField(); i++ { m[v.Type().Field(i).Name] = govcDump(v.Field(i), depth+1) }
		return m
	case reflect.Ptr:
		if v.IsNil() { return nil }
		return map[string]interface{}{"ptr": govcDump(v.Elem(), depth+1)}
	case reflect.Interface:
		if v.IsNil() { return nil }
		return map[string]interface{}{"dyn": v.Elem().Type().String(), "val": govcDump(v.Elem(), depth+1)}
	}
	return "?"
}
func govcDumpAll(vs ...interface{}) string {
	out := make([]interface{}, len(vs))
	for i, x := range vs {
		if x == nil { out[i] = nil; continue }
		out[i] = map[string]interface{}{"top": true, "dyn": reflect.TypeOf(x).String(), "val": govcDump(reflect.ValueOf(x), 0)}
	}
	b, _ := json.Marshal(out)
	return string(b)
}
`

func (rp *replayer) testSource(fn *ssa.Function, cvs []*CV) string {
	var body strings.Builder
	var argNames []string
	for i, cv := range cvs {
		fmt.Fprintf(&body, "\ta%d := %s\n", i, rp.src(cv))
		argNames = append(argNames, fmt.Sprintf("a%d", i))
	}
	call := ""
	if fn.Signature.Recv() != nil {
		call = fmt.Sprintf("a0.%s(%s)", fn.Name(), strings.Join(argNames[1:], ", "))
	} else {
		call = fmt.Sprintf("%s(%s)", fn.Name(), strings.Join(argNames, ", "))
	}
	nres := fn.Signature.Results().Len()
	var rn []string
	for i := 0; i < nres; i++ {
		rn = append(rn, fmt.Sprintf("r%d", i))
	}
	if nres > 0 {
		fmt.Fprintf(&body, "\t%s := %s\n", strings.Join(rn, ", "), call)
	} else {
		fmt.Fprintf(&body, "\t%s\n", call)
	}
	fmt.Fprintf(&body, "\tfmt.Printf(\"GOVC-RESULT: %%s\\n\", govcDumpAll(%s))\n", strings.Join(rn, ", "))
	fmt.Fprintf(&body, "\tfmt.Printf(\"GOVC-POST: %%s\\n\", govcDumpAll(%s))\n", strings.Join(argNames, ", "))
	var sb strings.Builder
	fmt.Fprintf(&sb, "package %s\n\nimport (\n\t\"encoding/hex\"\n\t\"encoding/json\"\n\t\"fmt\"\n\t\"reflect\"\n\t\"testing\"\n\t\"time\"\n", rp.pkg.Name())
	var ips []string
	for p := range rp.imports {
		ips = append(ips, p)
	}
	sort.Strings(ips)
	for _, p := range ips {
		switch p {
		case "time", "fmt", "reflect", "testing", "encoding/hex", "encoding/json":
			continue
		}
		fmt.Fprintf(&sb, "\t%s %q\n", rp.imports[p], p)
	}
	sb.WriteString(")\n\nvar _ = time.Unix\nvar _ = hex.EncodeToString\n")
	sb.WriteString(dumpHelper)
	sb.WriteString("\nfunc TestGovcReplayGen(t *testing.T) {\n\tdefer func() {\n\t\tif r := recover(); r != nil {\n\t\t\tfmt.Printf(\"GOVC-PANIC: %v\\n\", r)\n\t\t}\n\t}()\n")
	sb.WriteString(body.String())
	sb.WriteString("}\n")
	return sb.String()
}

// ---- evaluation of the contract on observed values ----

func (rp *replayer) toVal(e *Exec, st *State, cv *CV) Val {
	c := e.C
	switch cv.K {
	case "int":
		return c.NumConst(cv.I, e.sortOf(cv.T))
	case "bool":
		return c.Bool(cv.B)
	case "time":
		return &TimeVal{Sec: c.IntConst(cv.Sec), Nsec: c.IntConst(cv.Nsec)}
	case "bytes":
		var et types.Type = types.Typ[types.Uint8]
		switch u := cv.T.Underlying().(type) {
		case *types.Slice:
			et = u.Elem()
		case *types.Array:
			et = u.Elem()
		}
		es := e.elemSort(et)
		vals := make([]*Term, len(cv.Elems))
		for i, x := range cv.Elems {
			vals[i] = c.NumConst(x, es)
		}
		cont := &ArrLit{Vals: vals, Rest: &ArrFill{Val: zeroOf(c, es)}}
		n := e.idx(int64(len(vals)))
		switch cv.T.Underlying().(type) {
		case *types.Basic:
			return &StringVal{C: cont, Off: e.idx(0), Len: n}
		case *types.Array:
			return &ArrayVal{ElemT: et, Scalar: true, Elem: es, C: cont, Len: n}
		}
		if cv.Nil {
			return &SliceVal{Off: e.idx(0), Len: e.idx(0), Cap: e.idx(0), Nil: c.True(), ElemT: et}
		}
		cp := len(vals)
		if cv.Cap > cp {
			cp = cv.Cap
		}
		id := e.newObj(st, &ArrayVal{ElemT: et, Scalar: true, Elem: es, C: cont, Len: e.idx(int64(cp))}, &ObjMeta{T: types.NewArray(et, 0)})
		return &SliceVal{Obj: id, Off: e.idx(0), Len: n, Cap: e.idx(int64(cp)), Nil: c.False(), ElemT: et}
	case "struct":
		stt := cv.T.Underlying().(*types.Struct)
		sv := &StructVal{T: stt, Named: cv.T, Fields: make([]Val, len(cv.Fields))}
		for i, f := range cv.Fields {
			sv.Fields[i] = rp.toVal(e, st, f)
		}
		return sv
	case "ptr":
		pt := cv.T.Underlying().(*types.Pointer)
		id := e.newObj(st, rp.toVal(e, st, cv.Elem), &ObjMeta{T: pt.Elem()})
		return &PtrVal{Obj: id, T: pt.Elem()}
	case "list":
		var et types.Type
		switch u := cv.T.Underlying().(type) {
		case *types.Slice:
			et = u.Elem()
		case *types.Array:
			et = u.Elem()
		}
		av := &ArrayVal{ElemT: et, Len: e.idx(int64(len(cv.List))), List: make([]Val, len(cv.List))}
		for i, x := range cv.List {
			av.List[i] = rp.toVal(e, st, x)
		}
		if _, ok := cv.T.Underlying().(*types.Array); ok {
			return av
		}
		id := e.newObj(st, av, &ObjMeta{T: types.NewArray(et, int64(len(cv.List)))})
		return &SliceVal{Obj: id, Off: e.idx(0), Len: av.Len, Cap: av.Len, Nil: c.False(), ElemT: et}
	case "iface":
		return &IfaceVal{Dyn: cv.Dyn, V: rp.toVal(e, st, cv.Elem), IsNil: c.False()}
	case "nilerr":
		return &IfaceVal{IsNil: c.True()}
	case "err":
		return &IfaceVal{Opaque: true, IsNil: c.False(), ID: c.Fresh("errid", BV(64))}
	}
	return e.zeroVal(st, cv.T)
}

// fromJSON converts a dumped value into a CV of static type t.
func (rp *replayer) fromJSON(j interface{}, t types.Type) *CV {
	if isTimeType(t) {
		m, _ := j.(map[string]interface{})
		s, _ := new(big.Int).SetString(fmt.Sprint(m["sec"]), 10)
		n, _ := new(big.Int).SetString(fmt.Sprint(m["nsec"]), 10)
		if s == nil {
			s = big.NewInt(0)
		}
		if n == nil {
			n = big.NewInt(0)
		}
		return &CV{K: "time", T: t, Sec: s, Nsec: n}
	}
	switch u := t.Underlying().(type) {
	case *types.Basic:
		switch {
		case isBoolType(t):
			b, _ := j.(bool)
			return &CV{K: "bool", T: t, B: b}
		case isIntType(t):
			v, ok := new(big.Int).SetString(fmt.Sprint(j), 10)
			if !ok {
				v = big.NewInt(0)
			}
			return &CV{K: "int", T: t, I: v}
		case isStringType(t):
			m, _ := j.(map[string]interface{})
			hx, _ := m["hex"].(string)
			b, _ := hex.DecodeString(hx)
			cv := &CV{K: "bytes", T: t}
			for _, x := range b {
				cv.Elems = append(cv.Elems, big.NewInt(int64(x)))
			}
			return cv
		}
	case *types.Slice, *types.Array:
		var et types.Type
		if s, ok := u.(*types.Slice); ok {
			et = s.Elem()
		} else {
			et = u.(*types.Array).Elem()
		}
		m, _ := j.(map[string]interface{})
		el, _ := m["elems"].([]interface{})
		if isScalarType(et) {
			cv := &CV{K: "bytes", T: t}
			if nl, _ := m["nil"].(bool); nl {
				cv.Nil = true
			}
			for _, x := range el {
				v, ok := new(big.Int).SetString(fmt.Sprint(x), 10)
				if !ok {
					if b, isb := x.(bool); isb && b {
						v = big.NewInt(1)
					} else {
						v = big.NewInt(0)
					}
				}
				if v.Sign() < 0 {
					v = norm(v, intWidth(et.Underlying().(*types.Basic)))
				}
				cv.Elems = append(cv.Elems, v)
			}
			return cv
		}
		cv := &CV{K: "list", T: t}
		for _, x := range el {
			cv.List = append(cv.List, rp.fromJSON(x, et))
		}
		return cv
	case *types.Struct:
		m, _ := j.(map[string]interface{})
		cv := &CV{K: "struct", T: t}
		for i := 0; i < u.NumFields(); i++ {
			cv.Fields = append(cv.Fields, rp.fromJSON(m[u.Field(i).Name()], u.Field(i).Type()))
		}
		return cv
	case *types.Pointer:
		if j == nil {
			return &CV{K: "zero", T: t}
		}
		m, _ := j.(map[string]interface{})
		return &CV{K: "ptr", T: t, Elem: rp.fromJSON(m["ptr"], u.Elem())}
	case *types.Interface:
		if j == nil {
			if t.String() == "error" {
				return &CV{K: "nilerr", T: t}
			}
			return &CV{K: "zero", T: t}
		}
		if t.String() == "error" {
			return &CV{K: "err", T: t}
		}
		m, _ := j.(map[string]interface{})
		dyn, _ := m["dyn"].(string)
		if dt := rp.w.resolveType(dyn); dt != nil {
			return &CV{K: "iface", T: t, Dyn: dt, Elem: rp.fromJSON(m["val"], dt)}
		}
		return &CV{K: "err", T: t}
	}
	return &CV{K: "zero", T: t}
}

func grabLine(txt, prefix string) string {
	for _, l := range strings.Split(txt, "\n") {
		if strings.HasPrefix(l, prefix) {
			return strings.TrimSpace(strings.TrimPrefix(l, prefix))
		}
	}
	return ""
}

// evalPost evaluates requires/ensures on the concrete pre-state (model) and post-state (observed).
func (rp *replayer) evalPost(fn *ssa.Function, cvs []*CV, out string) (failed []string, note string) {
	defer func() {
		if x := recover(); x != nil {
			note = fmt.Sprintf("contract evaluation on observed values failed: %v", x)
		}
	}()
	var results, post []interface{}
	if err := json.Unmarshal([]byte(grabLine(out, "GOVC-RESULT:")), &results); err != nil {
		return nil, "cannot parse observed results"
	}
	if err := json.Unmarshal([]byte(grabLine(out, "GOVC-POST:")), &post); err != nil {
		return nil, "cannot parse observed post-state"
	}
	w := rp.w
	e := w.newExec(fn, rp.ct, VerifyOpts{}, map[loopKey]bool{})
	st := &State{Heap: map[int]Val{}, Maps: map[int]*MapState{}}
	vars := map[string]sv{}
	args := make([]Val, len(fn.Params))
	for i, p := range fn.Params {
		args[i] = rp.toVal(e, st, cvs[i])
		vars[paramName(p, i)] = sv{V: args[i], T: p.Type()}
	}
	bindPositional(vars, fn, args)
	env := &SpecEnv{e: e, st: st, vars: vars, pkg: rp.pkg, where: "replay"}
	for _, g := range rp.ct.Ghosts {
		env.vars[g.Name] = e.ghostVal(st, g)
	}
	pre := st.clone()
	var hyps []*Term
	for _, r := range rp.ct.Requires {
		t := env.Bool(r.Expr)
		if t.IsFalse() {
			return nil, "the concretised model does not satisfy requires " + r.Text
		}
		if !t.IsTrue() {
			hyps = append(hyps, t)
		}
	}
	// post-state: overwrite pointees of pointer parameters with the observed values
	for i, p := range fn.Params {
		if pv, ok := args[i].(*PtrVal); ok && pv.Obj != 0 && i < len(post) && post[i] != nil {
			pj := post[i]
			if m, ok := pj.(map[string]interface{}); ok && m["top"] == true {
				pj = m["val"]
			}
			cv := rp.fromJSON(pj, p.Type())
			if cv.K == "ptr" {
				st.Heap[pv.Obj] = rp.toVal(e, st, cv.Elem)
			}
		}
	}
	unwrap := func(j interface{}, t types.Type) interface{} {
		m, ok := j.(map[string]interface{})
		if !ok || m["top"] != true {
			return j
		}
		if _, isI := t.Underlying().(*types.Interface); isI {
			return map[string]interface{}{"dyn": m["dyn"], "val": m["val"]}
		}
		return m["val"]
	}
	rs := fn.Signature.Results()
	rvals := make([]Val, rs.Len())
	for i := 0; i < rs.Len(); i++ {
		var j interface{}
		if i < len(results) {
			j = unwrap(results[i], rs.At(i).Type())
		}
		rvals[i] = rp.toVal(e, st, rp.fromJSON(j, rs.At(i).Type()))
	}
	penv := &SpecEnv{e: e, st: st, old: pre, vars: map[string]sv{}, pkg: rp.pkg, where: "replay"}
	for k, v := range env.vars {
		penv.vars[k] = v
	}
	bindResults(penv, fn, rvals)
	undecided := 0
	for _, en := range rp.ct.Ensures {
		t := penv.Bool(en.Expr)
		if t.IsTrue() {
			continue
		}
		if t.IsFalse() {
			failed = append(failed, en.Label+": "+en.Text)
			continue
		}
		sr := w.Solve(e.C, append(append([]*Term{}, hyps...), t), 10, nil)
		if sr.Status == "unsat" {
			failed = append(failed, en.Label+": "+en.Text)
		} else {
			undecided++
		}
	}
	if len(failed) == 0 {
		if undecided > 0 {
			return nil, fmt.Sprintf("every postcondition is satisfiable on the observed result (%d depend on uninterpreted functions)", undecided)
		}
		return nil, "every postcondition holds on the observed result: contract or abstraction too weak for this change"
	}
	return failed, ""
}
