package vc

import (
	"fmt"
	"go/types"
	"math/big"
	"strings"

	"golang.org/x/tools/go/ssa"
)

// Deterministic models of the external cryptographic primitives the library builds on (crypto/des, crypto/aes,
// crypto/cipher CBC, crypto/md5, crypto/sha1, crypto/sha256, crypto/hmac, golang.org/x/crypto/pbkdf2).
//
// The verifier cannot execute these packages (assembly, reflection, tables of thousands of constants) and the
// solvers could not reason about their output if it did. What the library's properties need from them is only that
// each is a *function*: the same key and the same message give the same output. A primitive applied to byte strings
// of concrete length is therefore modelled as an uninterpreted function of the bytes (one symbol per primitive and
// length signature), so that two computations agree in the model exactly when they feed the primitive the same
// bytes. Two algebraic facts are built in as rewrites because properties state them: DES ignores the low (parity)
// bit of every key byte, and decryption undoes encryption under the same key (and IV). Everything else about the
// primitives (that DES is DES) is outside the model and listed as an assumption in the evidence.
//
// The models only apply in the bit-vector encoding and to arguments of concrete length; otherwise they decline and
// the call is abstracted as before (fresh result).

type cryptoObj struct {
	kind string   // "block", "hash", "cbc"
	alg  string   // des, aes / md5, sha1, sha256, hmac-md5 ... / cbc-enc:aes ...
	key  []*Term  // key bytes (des: parity bits cleared)
	size int      // block size (block, cbc) or digest size (hash)
	enc  bool     // cbc: encrypter
}

var cryptoStructT = types.NewStruct([]*types.Var{
	types.NewField(0, nil, "buf", types.NewSlice(types.Typ[types.Uint8]), false),
	types.NewField(0, nil, "off", types.Typ[types.Int], false),
	types.NewField(0, nil, "iv", types.NewSlice(types.Typ[types.Uint8]), false),
}, nil)

// bytesOf returns the elements of a byte sequence of concrete length.
func (e *Exec) bytesOf(st *State, v Val) ([]*Term, bool) {
	var c ArrC
	var off, ln *Term
	switch x := v.(type) {
	case *SliceVal:
		if x.Obj == 0 {
			if x.Len.IsConst() && x.Len.C.Sign() == 0 {
				return []*Term{}, true
			}
			return nil, false
		}
		av := e.sliceBacking(st, x)
		if av == nil || !av.Scalar || sizeOf(av.ElemT) != 1 {
			return nil, false
		}
		c, off, ln = av.C, x.Off, x.Len
	case *StringVal:
		c, off, ln = x.C, x.Off, x.Len
	case *ArrayVal:
		if !x.Scalar || sizeOf(x.ElemT) != 1 {
			return nil, false
		}
		c, off, ln = x.C, e.idx(0), x.Len
	default:
		return nil, false
	}
	if !ln.IsConst() || !off.IsConst() {
		// a length the path condition fixes to a constant (a contract said len(result) == 40) counts as that constant
		ln = e.pcConst(st, ln)
		off = e.pcConst(st, off)
	}
	if !ln.IsConst() || !ln.C.IsInt64() || ln.C.Int64() > 4096 {
		return nil, false
	}
	n := int(ln.C.Int64())
	out := make([]*Term, n)
	for i := range out {
		out[i] = e.sel(c, e.C.Add(off, e.idx(int64(i))))
	}
	return out, true
}

// byteSliceOf makes a fresh []byte object holding the given terms.
func (e *Exec) byteSliceOf(st *State, vals []*Term, name string) *SliceVal {
	s := e.constScalarSlice(st, types.Typ[types.Uint8], make([]int64, len(vals)), name)
	if len(vals) == 0 {
		return s
	}
	av := e.sliceBacking(st, s)
	nav := *av
	nav.C = &ArrLit{Vals: append([]*Term{}, vals...), Rest: &ArrFill{Val: e.C.NumConst(bigZero(), av.Elem)}}
	st.Heap[s.Obj] = &nav
	return s
}

// pack groups bytes into bit-vectors of at most 64 bits (first byte most significant).
func (e *Exec) pack(bs []*Term) []*Term {
	var out []*Term
	for i := 0; i < len(bs); i += 8 {
		j := i + 8
		if j > len(bs) {
			j = len(bs)
		}
		t := bs[i]
		for _, b := range bs[i+1 : j] {
			t = e.C.Concat(t, b)
		}
		out = append(out, t)
	}
	return out
}

// ufBytes applies the uninterpreted function name_<lens> to the byte strings and returns its n result bytes.
func (e *Exec) ufBytes(name string, n int, extra []*Term, parts ...[]*Term) []*Term {
	var args []*Term
	for _, p := range parts {
		name += fmt.Sprintf("_%d", len(p))
		args = append(args, e.pack(p)...)
	}
	args = append(args, extra...)
	name += fmt.Sprintf("_o%d", n)
	r := e.C.App(name, BV(8*n), args...)
	out := make([]*Term, n)
	for i := range out {
		out[i] = e.C.Extract(8*(n-i)-1, 8*(n-i-1), r)
	}
	return out
}

// ufInverse recognises bs as the complete output, in order, of one application of function prefix "name_..." whose
// leading arguments equal `lead`; it returns that application's remaining (message) argument bytes.
func (e *Exec) ufInverse(bs []*Term, fname string, lead []*Term, msgLen int) ([]*Term, bool) {
	if len(bs) == 0 {
		return nil, false
	}
	var app *Term
	n := len(bs)
	for i, b := range bs {
		var a *Term
		switch {
		case b.Op == "extract" && b.P[0] == 8*(n-i)-1 && b.P[1] == 8*(n-i-1):
			a = b.Args[0]
		case n == 1 && b.Op == "app":
			a = b
		default:
			return nil, false
		}
		if a.Op != "app" || a.S.W != 8*n {
			return nil, false
		}
		if app == nil {
			app = a
		} else if app != a {
			return nil, false
		}
	}
	if app.Name != fname {
		return nil, false
	}
	pl := e.pack(lead)
	if len(app.Args) < len(pl) {
		return nil, false
	}
	for i, t := range pl {
		if app.Args[i] != t {
			return nil, false
		}
	}
	// unpack the message bytes
	var msg []*Term
	for _, a := range app.Args[len(pl):] {
		w := a.S.W
		for k := w/8 - 1; k >= 0; k-- {
			msg = append(msg, e.C.Extract(8*k+7, 8*k, a))
		}
	}
	if len(msg) != msgLen {
		return nil, false
	}
	return msg, true
}

func (e *Exec) newCryptoObj(st *State, co *cryptoObj, iv []*Term) *IfaceVal {
	if e.cryptoObjs == nil {
		e.cryptoObjs = map[int]*cryptoObj{}
	}
	sv := &StructVal{T: cryptoStructT, Named: cryptoStructT, Fields: []Val{
		&SliceVal{Off: e.idx(0), Len: e.idx(0), Cap: e.idx(0), Nil: e.C.True(), ElemT: types.Typ[types.Uint8]},
		e.idx(0),
		e.byteSliceOf(st, iv, "iv"),
	}}
	id := e.newObj(st, sv, &ObjMeta{T: cryptoStructT, Fresh: true, Name: "crypto:" + co.alg})
	e.cryptoObjs[id] = co
	e.UsedIntrinsics["deterministic-function model of "+co.alg+" (uninterpreted; equal inputs give equal outputs)"] = true
	return &IfaceVal{Opaque: true, IsNil: e.C.False(), ID: e.C.Fresh("obj", BV(64)), V: &PtrVal{Obj: id, T: cryptoStructT}}
}

func (e *Exec) cryptoObjOf(iv *IfaceVal) (*cryptoObj, *PtrVal) {
	if iv == nil || e.cryptoObjs == nil {
		return nil, nil
	}
	p, ok := iv.V.(*PtrVal)
	if !ok {
		return nil, nil
	}
	co := e.cryptoObjs[p.Obj]
	if co == nil {
		return nil, nil
	}
	return co, p
}

func (e *Exec) writeBytesAt(st *State, dst *SliceVal, vals []*Term) {
	av := e.sliceBacking(st, dst)
	nav := *av
	c := av.C
	for i, v := range vals {
		c = e.arrStore(c, e.C.Add(dst.Off, e.idx(int64(i))), v)
	}
	nav.C = c
	e.storeBacking(st, dst, &nav)
}

func hashAlgOfCtor(v Val) (string, int) {
	f, ok := v.(*FuncVal)
	if !ok || f.Fn == nil {
		return "", 0
	}
	switch f.Fn.String() {
	case "crypto/md5.New":
		return "md5", 16
	case "crypto/sha1.New":
		return "sha1", 20
	case "crypto/sha256.New":
		return "sha256", 32
	}
	return "", 0
}

// ---- constructors ----

func intrBlockCipherCtor(alg string) intrinsic {
	old := nonNilIface(true)
	return func(e *Exec, st *State, fr *Frame, args []Val, in ssa.Instruction, rt types.Type) []callRes {
		if e.IntMode {
			return old(e, st, fr, args, in, rt)
		}
		key, ok := e.bytesOf(st, args[0])
		if !ok {
			return old(e, st, fr, args, in, rt)
		}
		valid := false
		size := 16
		switch alg {
		case "des":
			valid = len(key) == 8
			size = 8
		case "aes":
			valid = len(key) == 16 || len(key) == 24 || len(key) == 32
		}
		if !valid {
			// KeySizeError
			return []callRes{{st, TupleVal{&IfaceVal{IsNil: e.C.True()}, e.newError(st)}}}
		}
		if alg == "des" {
			// the low bit of every key byte is a parity bit DES does not use
			mk := make([]*Term, 8)
			for i, b := range key {
				mk[i] = e.C.BvAnd(b, e.C.BVu(0xFE, 8))
			}
			key = mk
		}
		iv := e.newCryptoObj(st, &cryptoObj{kind: "block", alg: alg, key: key, size: size}, nil)
		return []callRes{{st, TupleVal{iv, errNil(e)}}}
	}
}

func intrHashCtor(alg string, size int) intrinsic {
	old := nonNilIface(false)
	return func(e *Exec, st *State, fr *Frame, args []Val, in ssa.Instruction, rt types.Type) []callRes {
		if e.IntMode {
			return old(e, st, fr, args, in, rt)
		}
		return []callRes{{st, e.newCryptoObj(st, &cryptoObj{kind: "hash", alg: alg, size: size}, nil)}}
	}
}

func intrHmacNew(e *Exec, st *State, fr *Frame, args []Val, in ssa.Instruction, rt types.Type) []callRes {
	old := nonNilIface(false)
	if e.IntMode {
		return old(e, st, fr, args, in, rt)
	}
	alg, size := hashAlgOfCtor(args[0])
	key, ok := e.bytesOf(st, args[1])
	if alg == "" || !ok {
		return old(e, st, fr, args, in, rt)
	}
	return []callRes{{st, e.newCryptoObj(st, &cryptoObj{kind: "hash", alg: "hmac-" + alg, key: key, size: size}, nil)}}
}

func intrCBCCtor(enc bool) intrinsic {
	old := nonNilIface(false)
	return func(e *Exec, st *State, fr *Frame, args []Val, in ssa.Instruction, rt types.Type) []callRes {
		if e.IntMode {
			return old(e, st, fr, args, in, rt)
		}
		b, _ := args[0].(*IfaceVal)
		co, _ := e.cryptoObjOf(b)
		iv, ok := e.bytesOf(st, args[1])
		if co == nil || co.kind != "block" || !ok {
			return old(e, st, fr, args, in, rt)
		}
		// cipher.NewCBC*: panics when the IV length differs from the block size
		e.oblige(st, fr, in, "conv-panic", e.C.Bool(len(iv) == co.size))
		if st.Dead || len(iv) != co.size {
			return nil
		}
		dir := "cbc-dec:"
		if enc {
			dir = "cbc-enc:"
		}
		return []callRes{{st, e.newCryptoObj(st, &cryptoObj{kind: "cbc", alg: dir + co.alg, key: co.key, size: co.size, enc: enc}, iv)}}
	}
}

// ---- methods (called through the stdlib interfaces cipher.Block, cipher.BlockMode, hash.Hash) ----

// cryptoInvoke returns (results, true) when the receiver is a modelled object and the method is modelled.
func (e *Exec) cryptoInvoke(st *State, fr *Frame, recv *IfaceVal, method string, args []Val, in ssa.Instruction, rt types.Type) ([]callRes, bool) {
	co, _ := e.cryptoObjOf(recv)
	if co == nil || e.IntMode {
		return nil, false
	}
	rs := e.cryptoInvoke1(st, fr, recv, method, args, in, rt)
	if rs == nil && !st.Dead {
		return nil, false
	}
	return rs, true
}

func (e *Exec) cryptoInvoke1(st *State, fr *Frame, recv *IfaceVal, method string, args []Val, in ssa.Instruction, rt types.Type) []callRes {
	co, p := e.cryptoObjOf(recv)
	c := e.C
	switch co.kind + "." + method {
	case "block.BlockSize", "cbc.BlockSize", "hash.Size":
		return []callRes{{st, e.idx(int64(co.size))}}
	case "hash.BlockSize":
		return []callRes{{st, e.idx(64)}}
	case "block.Encrypt", "block.Decrypt":
		dst, ok1 := args[0].(*SliceVal)
		src, ok2 := args[1].(*SliceVal)
		if !ok1 || !ok2 {
			return nil
		}
		// crypto/des, crypto/aes: "input not full block" / "output not full block"
		e.oblige(st, fr, in, "conv-panic", c.And(e.leIdx(e.idx(int64(co.size)), src.Len), e.leIdx(e.idx(int64(co.size)), dst.Len)))
		if st.Dead {
			return nil
		}
		blk := make([]*Term, co.size)
		if src.Obj == 0 {
			return nil
		}
		sav := e.sliceBacking(st, src)
		for i := range blk {
			blk[i] = e.sel(sav.C, c.Add(src.Off, e.idx(int64(i))))
		}
		encName := fmt.Sprintf("%s_enc_%d_%d_o%d", co.alg, len(co.key), co.size, co.size)
		var out []*Term
		if method == "Decrypt" {
			if m, ok := e.ufInverse(blk, encName, co.key, co.size); ok {
				out = m
			} else {
				out = e.ufBytes(co.alg+"_dec", co.size, nil, co.key, blk)
			}
		} else {
			out = e.ufBytes(co.alg+"_enc", co.size, nil, co.key, blk)
		}
		e.writeBytesAt(st, dst, out)
		return []callRes{{st, nil}}
	case "cbc.CryptBlocks":
		dst, ok1 := args[0].(*SliceVal)
		src, ok2 := args[1].(*SliceVal)
		if !ok1 || !ok2 {
			return nil
		}
		sb, ok := e.bytesOf(st, src)
		if !ok {
			return nil
		}
		// crypto/cipher: "input not full blocks" / "output smaller than input"
		e.oblige(st, fr, in, "conv-panic", c.And(c.Bool(len(sb)%co.size == 0), e.leIdx(src.Len, dst.Len)))
		if st.Dead || len(sb)%co.size != 0 {
			return nil
		}
		if len(sb) == 0 {
			return []callRes{{st, nil}}
		}
		sv := e.load(st, p).(*StructVal)
		iv, ok := e.bytesOf(st, sv.Fields[2])
		if !ok {
			return nil
		}
		encAlg := "cbc-enc:" + strings.TrimPrefix(strings.TrimPrefix(co.alg, "cbc-enc:"), "cbc-dec:")
		encName := fmt.Sprintf("%s_%d_%d_%d_o%d", sanitizeAlg(encAlg), len(co.key), len(iv), len(sb), len(sb))
		var out, nextIV []*Term
		if co.enc {
			out = e.ufBytes(sanitizeAlg(co.alg), len(sb), nil, co.key, iv, sb)
			nextIV = out[len(out)-co.size:]
		} else {
			if m, ok := e.ufInverse(sb, encName, append(append([]*Term{}, co.key...), iv...), len(sb)); ok && len(co.key)%8 == 0 {
				out = m
			} else {
				out = e.ufBytes(sanitizeAlg(co.alg), len(sb), nil, co.key, iv, sb)
			}
			nextIV = sb[len(sb)-co.size:]
		}
		if dst.Obj == 0 {
			return nil
		}
		e.writeBytesAt(st, dst, out)
		ns := &StructVal{T: sv.T, Named: sv.Named, Fields: append([]Val{}, sv.Fields...)}
		ns.Fields[2] = e.byteSliceOf(st, nextIV, "iv")
		e.store(st, p, ns)
		return []callRes{{st, nil}}
	case "hash.Write":
		n := lenOfVal(e, args[0])
		if st2, ok := e.bufferAppend(st, fr, in, p, args[0]); ok {
			return []callRes{{st2, TupleVal{n, errNil(e)}}}
		}
		// symbolic data: the running message is no longer known
		debugf("crypto: hash.Write with data the accumulator cannot take: poisoned")
		e.poisonCrypto(st, p)
		return []callRes{{st, TupleVal{n, errNil(e)}}}
	case "hash.Reset":
		sv := e.load(st, p).(*StructVal)
		ns := &StructVal{T: sv.T, Named: sv.Named, Fields: append([]Val{}, sv.Fields...)}
		ns.Fields[0] = &SliceVal{Off: e.idx(0), Len: e.idx(0), Cap: e.idx(0), Nil: c.True(), ElemT: types.Typ[types.Uint8]}
		ns.Fields[1] = e.idx(0)
		e.store(st, p, ns)
		return []callRes{{st, nil}}
	case "hash.Sum":
		pre, ok := args[0].(*SliceVal)
		if !ok {
			return nil
		}
		var dig []*Term
		sv, _ := e.load(st, p).(*StructVal)
		if sv != nil {
			if off, isT := sv.Fields[1].(*Term); isT && off.IsConst() && off.C.Sign() == 0 {
				if msg, ok := e.bytesOf(st, sv.Fields[0]); ok {
					dig = e.ufBytes(sanitizeAlg(co.alg), co.size, nil, co.key, msg)
				}
			}
		}
		if dig == nil {
			if sv != nil {
				debugf("crypto: hash.Sum over a message of unknown length (len %s): fresh digest", c.Show(sv.Fields[0].(*SliceVal).Len))
			}
			dig = make([]*Term, co.size)
			for i := range dig {
				dig[i] = c.Fresh("digest", BV(8))
			}
		}
		rs := e.appendImpl(st, fr, in, pre, e.byteSliceOf(st, dig, "digest"))
		return rs
	}
	return nil
}

func sanitizeAlg(s string) string {
	return strings.NewReplacer(":", "_", "-", "_").Replace(s)
}

// poisonCrypto marks the accumulated message of a hash object as unknown.
func (e *Exec) poisonCrypto(st *State, p *PtrVal) {
	sv, ok := e.load(st, p).(*StructVal)
	if !ok {
		return
	}
	ns := &StructVal{T: sv.T, Named: sv.Named, Fields: append([]Val{}, sv.Fields...)}
	ns.Fields[1] = e.C.Fresh("poisoned", e.idxSort())
	e.store(st, p, ns)
}

// ---- one-shot functions ----

func intrSumFn(alg string, size int) intrinsic {
	return func(e *Exec, st *State, fr *Frame, args []Val, in ssa.Instruction, rt types.Type) []callRes {
		if e.IntMode {
			return nil
		}
		msg, ok := e.bytesOf(st, args[0])
		if !ok {
			return nil
		}
		e.UsedIntrinsics["deterministic-function model of "+alg+" (uninterpreted; equal inputs give equal outputs)"] = true
		dig := e.ufBytes(alg, size, nil, nil, msg)
		es := e.elemSort(types.Typ[types.Uint8])
		return []callRes{{st, &ArrayVal{ElemT: types.Typ[types.Uint8], Scalar: true, Elem: es, C: &ArrLit{Vals: dig, Rest: &ArrFill{Val: e.C.NumConst(big.NewInt(0), es)}}, Len: e.idx(int64(size))}}}
	}
}

// pbkdf2.Key(password, salt, iter, keyLen, h)
func intrPBKDF2(e *Exec, st *State, fr *Frame, args []Val, in ssa.Instruction, rt types.Type) []callRes {
	if e.IntMode {
		return nil
	}
	pw, ok1 := e.bytesOf(st, args[0])
	salt, ok2 := e.bytesOf(st, args[1])
	iter, ok3 := args[2].(*Term)
	kl, ok4 := args[3].(*Term)
	alg, _ := hashAlgOfCtor(args[4])
	if !ok1 || !ok2 || !ok3 || !ok4 || alg == "" || !kl.IsConst() || !kl.C.IsInt64() || kl.C.Int64() < 0 || kl.C.Int64() > 1024 {
		return nil
	}
	e.UsedIntrinsics["deterministic-function model of pbkdf2-"+alg+" (uninterpreted; equal inputs give equal outputs)"] = true
	out := e.ufBytes("pbkdf2_"+alg, int(kl.C.Int64()), []*Term{iter}, pw, salt)
	return []callRes{{st, e.byteSliceOf(st, out, "pbkdf2")}}
}

func init() {
	for _, n := range []string{"crypto/sha256.Sum256", "crypto/md5.Sum", "crypto/sha1.Sum", "golang.org/x/crypto/pbkdf2.Key"} {
		declining[n] = true
	}
	intrinsics["crypto/des.NewCipher"] = intrBlockCipherCtor("des")
	intrinsics["crypto/aes.NewCipher"] = intrBlockCipherCtor("aes")
	intrinsics["crypto/cipher.NewCBCEncrypter"] = intrCBCCtor(true)
	intrinsics["crypto/cipher.NewCBCDecrypter"] = intrCBCCtor(false)
	intrinsics["crypto/md5.New"] = intrHashCtor("md5", 16)
	intrinsics["crypto/sha1.New"] = intrHashCtor("sha1", 20)
	intrinsics["crypto/sha256.New"] = intrHashCtor("sha256", 32)
	intrinsics["crypto/hmac.New"] = intrHmacNew
	intrinsics["crypto/sha256.Sum256"] = intrSumFn("sha256", 32)
	intrinsics["crypto/md5.Sum"] = intrSumFn("md5", 16)
	intrinsics["crypto/sha1.Sum"] = intrSumFn("sha1", 20)
	intrinsics["golang.org/x/crypto/pbkdf2.Key"] = intrPBKDF2
}

// bytes.Repeat(b, n): panics for negative n; for a one-byte pattern the result is n copies of it.
func intrBytesRepeat(e *Exec, st *State, fr *Frame, args []Val, in ssa.Instruction, rt types.Type) []callRes {
	s, ok := args[0].(*SliceVal)
	n, ok2 := args[1].(*Term)
	if !ok || !ok2 {
		return nil
	}
	c := e.C
	e.oblige(st, fr, in, "panic", c.Le(zeroOf(c, n.S), n, true))
	if st.Dead {
		return []callRes{}
	}
	if pat, ok := e.bytesOf(st, s); ok && n.IsConst() && n.C.IsInt64() && n.C.Int64()*int64(len(pat)) <= 4096 {
		var vals []*Term
		for i := int64(0); i < n.C.Int64(); i++ {
			vals = append(vals, pat...)
		}
		return []callRes{{st, e.byteSliceOf(st, vals, "repeat")}}
	}
	out := e.freshSliceObj(st, types.Typ[types.Uint8], "repeat")
	e.metaAll[out.Obj].Growable = false
	st.assume(c.Eq(out.Len, c.Mul(s.Len, n)))
	st.assume(c.Eq(out.Cap, out.Len))
	st.assume(c.Not(out.Nil))
	if s.Obj != 0 && s.Len.IsConst() && s.Len.C.IsInt64() && s.Len.C.Int64() == 1 {
		sav := e.sliceBacking(st, s)
		b := e.sel(sav.C, s.Off)
		av := e.sliceBacking(st, out)
		nav := *av
		nav.C = &ArrFill{Val: b}
		st.Heap[out.Obj] = &nav
	}
	return []callRes{{st, out}}
}

func init() {
	intrinsics["bytes.Repeat"] = intrBytesRepeat
}

// ---- the library's own MD4 as a function (clause `model md4` of a lemma) ----
//
// Lemmas about what the library feeds into MD4 (NT hash, MS-Cache, NTLMv2 keying) treat crypto/md4 modularly: New /
// Write / Sum and the one-shot Sum are replaced by the deterministic function "md4" of the bytes written, so that
// the lemma is about the message and holds for whatever function crypto/md4 computes; that this function is RFC 1320
// is the subject of the lemmas in crypto/md4 itself.

const md4Pkg = modulePath + "/crypto/md4"

var md4Model = map[string]intrinsic{
	md4Pkg + ".New": func(e *Exec, st *State, fr *Frame, args []Val, in ssa.Instruction, rt types.Type) []callRes {
		if e.IntMode {
			return nil
		}
		iv := e.newCryptoObj(st, &cryptoObj{kind: "hash", alg: "md4", size: 16}, nil)
		p := iv.V.(*PtrVal)
		if pt, ok := rt.(*types.Pointer); ok {
			return []callRes{{st, &PtrVal{Obj: p.Obj, T: pt.Elem()}}}
		}
		return nil
	},
	"(*" + md4Pkg + ".MD4).Write": func(e *Exec, st *State, fr *Frame, args []Val, in ssa.Instruction, rt types.Type) []callRes {
		p, ok := args[0].(*PtrVal)
		if !ok || e.cryptoObjs[p.Obj] == nil {
			return nil
		}
		n := lenOfVal(e, args[1])
		if st2, ok := e.bufferAppend(st, fr, in, &PtrVal{Obj: p.Obj, T: cryptoStructT}, args[1]); ok {
			return []callRes{{st2, TupleVal{n, errNil(e)}}}
		}
		e.poisonCrypto(st, &PtrVal{Obj: p.Obj, T: cryptoStructT})
		return []callRes{{st, TupleVal{n, errNil(e)}}}
	},
	"(*" + md4Pkg + ".MD4).Sum": func(e *Exec, st *State, fr *Frame, args []Val, in ssa.Instruction, rt types.Type) []callRes {
		p, ok := args[0].(*PtrVal)
		if !ok || e.cryptoObjs[p.Obj] == nil {
			return nil
		}
		var dig []*Term
		if sv, _ := e.load(st, &PtrVal{Obj: p.Obj, T: cryptoStructT}).(*StructVal); sv != nil {
			if off, isT := sv.Fields[1].(*Term); isT && off.IsConst() && off.C.Sign() == 0 {
				if msg, ok := e.bytesOf(st, sv.Fields[0]); ok {
					dig = e.ufBytes("md4", 16, nil, nil, msg)
				}
			}
		}
		if dig == nil {
			dig = make([]*Term, 16)
			for i := range dig {
				dig[i] = e.C.Fresh("digest", BV(8))
			}
		}
		es := e.elemSort(types.Typ[types.Uint8])
		return []callRes{{st, &ArrayVal{ElemT: types.Typ[types.Uint8], Scalar: true, Elem: es, C: &ArrLit{Vals: dig, Rest: &ArrFill{Val: e.C.NumConst(big.NewInt(0), es)}}, Len: e.idx(16)}}}
	},
	md4Pkg + ".Sum": func(e *Exec, st *State, fr *Frame, args []Val, in ssa.Instruction, rt types.Type) []callRes {
		if e.IntMode {
			return nil
		}
		msg, ok := e.bytesOf(st, args[0])
		if !ok {
			return nil
		}
		e.UsedIntrinsics["deterministic-function model of md4 (uninterpreted; equal inputs give equal outputs)"] = true
		dig := e.ufBytes("md4", 16, nil, nil, msg)
		es := e.elemSort(types.Typ[types.Uint8])
		return []callRes{{st, &ArrayVal{ElemT: types.Typ[types.Uint8], Scalar: true, Elem: es, C: &ArrLit{Vals: dig, Rest: &ArrFill{Val: e.C.NumConst(big.NewInt(0), es)}}, Len: e.idx(16)}}}
	},
}

// ---- encoding/base64 as a function (concrete-length input) with decoding as its inverse ----

func b64Name(in ssa.Instruction) string {
	var cc *ssa.CallCommon
	switch c := in.(type) {
	case *ssa.Call:
		cc = &c.Call
	case *ssa.Defer:
		cc = &c.Call
	default:
		return ""
	}
	if len(cc.Args) == 0 {
		return ""
	}
	if u, ok := cc.Args[0].(*ssa.UnOp); ok {
		if g, ok := u.X.(*ssa.Global); ok && g.Pkg != nil && g.Pkg.Pkg.Path() == "encoding/base64" {
			return "b64_" + g.Name()
		}
	}
	return ""
}

func b64EncLen(g string, n int) int {
	if strings.HasPrefix(g, "b64_Raw") {
		return (n*8 + 5) / 6
	}
	return (n + 2) / 3 * 4
}

func intrB64EncodeFn(e *Exec, st *State, fr *Frame, args []Val, in ssa.Instruction, rt types.Type) []callRes {
	name := b64Name(in)
	if name != "" && !e.IntMode {
		if src, ok := e.bytesOf(st, args[len(args)-1]); ok {
			e.UsedIntrinsics["deterministic-function model of base64 encoding (uninterpreted, injective: decoding inverts it)"] = true
			if len(src) == 0 {
				return []callRes{{st, e.strConst("")}}
			}
			out := e.ufBytes(name, b64EncLen(name, len(src)), nil, src)
			// the alphabet is ASCII
			for _, b := range out {
				st.assume(e.C.ULt(b, e.C.BVu(0x80, 8)))
			}
			es := e.elemSort(types.Typ[types.Uint8])
			return []callRes{{st, &StringVal{C: &ArrLit{Vals: out, Rest: &ArrFill{Val: e.C.NumConst(big.NewInt(0), es)}}, Off: e.idx(0), Len: e.idx(int64(len(out)))}}}
		}
	}
	return intrB64Encode(e, st, fr, args, in, rt)
}

func intrB64DecodeFn(e *Exec, st *State, fr *Frame, args []Val, in ssa.Instruction, rt types.Type) []callRes {
	name := b64Name(in)
	if name != "" && !e.IntMode {
		if enc, ok := e.bytesOf(st, args[len(args)-1]); ok && len(enc) > 0 {
			// the text is the encoding of n bytes for the n that gives this length
			for n := 1; n <= len(enc); n++ {
				if b64EncLen(name, n) != len(enc) {
					continue
				}
				fname := fmt.Sprintf("%s_%d_o%d", name, n, len(enc))
				if m, ok := e.ufInverse(enc, fname, nil, n); ok {
					return []callRes{{st, TupleVal{e.byteSliceOf(st, m, "b64dec"), errNil(e)}}}
				}
			}
		}
	}
	return intrB64Decode(e, st, fr, args, in, rt)
}

func init() {
	intrinsics["(*encoding/base64.Encoding).DecodeString"] = intrB64DecodeFn
	intrinsics["(*encoding/base64.Encoding).EncodeToString"] = intrB64EncodeFn
}

// ---- exact Split / SplitN with a one-byte separator on sequences of concrete length ----
//
// Every position is decided (separator or not) from constants, or by the solver under the path condition; when a
// position needed for the result stays undecided the model declines and the older (abstract) treatment applies.

func intrSplitExact(withN bool, old intrinsic) intrinsic {
	return func(e *Exec, st *State, fr *Frame, args []Val, in ssa.Instruction, rt types.Type) []callRes {
		if rs := e.splitExact(st, args, withN, rt); rs != nil {
			return rs
		}
		if old != nil {
			return old(e, st, fr, args, in, rt)
		}
		return nil
	}
}

func (e *Exec) splitExact(st *State, args []Val, withN bool, rt types.Type) []callRes {
	if e.IntMode || st.Record != nil {
		return nil
	}
	c := e.C
	sepB, ok := e.bytesOf(st, args[1])
	if !ok || len(sepB) != 1 || !sepB[0].IsConst() {
		return nil
	}
	limit := -1
	if withN {
		n, ok := args[2].(*Term)
		if !ok || !n.IsConst() {
			return nil
		}
		limit = int(n.SInt().Int64())
		if limit == 0 {
			return nil
		}
	}
	bs, ok := e.bytesOf(st, args[0])
	if !ok || len(bs) > 512 {
		return nil
	}
	if sv, isStr := args[0].(*StringVal); isStr && sv.Tag != nil && !withN {
		return nil // tagged strings have their own treatment in Split
	}
	var cuts []int
	for i, b := range bs {
		if limit > 0 && len(cuts) == limit-1 {
			break
		}
		eq := c.Eq(b, sepB[0])
		switch {
		case eq.IsTrue():
			cuts = append(cuts, i)
		case eq.IsFalse():
		default:
			if e.quickValid(st, c.Not(eq)) {
				continue
			}
			if e.quickValid(st, eq) {
				cuts = append(cuts, i)
				continue
			}
			return nil
		}
	}
	elem := rt.Underlying().(*types.Slice).Elem()
	var parts []Val
	start := 0
	mk := func(a, b int) Val {
		switch x := args[0].(type) {
		case *StringVal:
			return &StringVal{C: x.C, Off: c.Add(x.Off, e.idx(int64(a))), Len: e.idx(int64(b - a))}
		case *SliceVal:
			return &SliceVal{Obj: x.Obj, Path: x.Path, Off: c.Add(x.Off, e.idx(int64(a))), Len: e.idx(int64(b - a)), Cap: e.idx(int64(b - a)), Nil: c.False(), ElemT: x.ElemT}
		}
		return nil
	}
	for _, k := range cuts {
		parts = append(parts, mk(start, k))
		start = k + 1
	}
	parts = append(parts, mk(start, len(bs)))
	for _, p := range parts {
		if p == nil {
			return nil
		}
	}
	n := e.idx(int64(len(parts)))
	id := e.newObj(st, &ArrayVal{ElemT: elem, Len: n, List: parts}, &ObjMeta{T: types.NewArray(elem, int64(len(parts))), Fresh: true})
	return []callRes{{st, &SliceVal{Obj: id, Off: e.idx(0), Len: n, Cap: n, Nil: c.False(), ElemT: elem}}}
}

func init() {
	intrinsics["bytes.SplitN"] = intrSplitExact(true, nil)
	declining["bytes.SplitN"] = true
	intrinsics["strings.SplitN"] = intrSplitExact(true, intrSplitN)
	oldSplit := intrSplit
	intrinsics["bytes.Split"] = intrSplitExact(false, oldSplit)
}

// ---- encoding/asn1 as an opaque, self-delimiting, invertible encoding ----
//
// Marshal(v) yields a fresh byte string whose content and length the verifier does not know; the state remembers
// which value it encodes. Unmarshal(b, &x), when b provably starts with the bytes of such a string and x has the
// type of the value it encodes, stores that value in x and returns the rest of b with a nil error (DER is
// self-delimiting; encoding/asn1 decodes what it encoded - an assumption about the dependency, listed in the
// evidence). In every other case the call is abstracted (unconstrained results). Byte-slice fields of the decoded
// value alias the original ones (encoding/asn1 copies; content equality is unaffected).

type asn1Rec struct {
	val Val
	typ types.Type
	s   *SliceVal
}

func intrASN1Marshal(e *Exec, st *State, fr *Frame, args []Val, in ssa.Instruction, rt types.Type) []callRes {
	iv, ok := args[0].(*IfaceVal)
	if !ok || iv.Dyn == nil || iv.Opaque || e.IntMode {
		return nil
	}
	c := e.C
	out := e.freshSliceObj(st, types.Typ[types.Uint8], "asn1")
	e.metaAll[out.Obj].Growable = false
	st.assume(c.Eq(out.Cap, out.Len))
	st.assume(c.Not(out.Nil))
	st.assume(e.leIdx(e.idx(2), out.Len)) // tag and length octets at least
	okb := c.Fresh("asn1.ok", BoolS)
	if st.Ghost == nil {
		st.Ghost = map[string]Val{}
	}
	st.Ghost[fmt.Sprintf("asn1:%d", out.Obj)] = &asn1Rec{val: iv.V, typ: iv.Dyn, s: out}
	e.UsedIntrinsics["encoding/asn1 as an opaque self-delimiting encoding that Unmarshal inverts (assumed contract on the dependency)"] = true
	return []callRes{{st, TupleVal{out, &IfaceVal{Opaque: true, IsNil: okb, ID: c.Fresh("errid", BV(64))}}}}
}

func intrASN1Unmarshal(e *Exec, st *State, fr *Frame, args []Val, in ssa.Instruction, rt types.Type) []callRes {
	b, ok := args[0].(*SliceVal)
	iv, ok2 := args[1].(*IfaceVal)
	if !ok || !ok2 || iv.Dyn == nil || iv.Opaque || e.IntMode || b.Obj == 0 || st.Record != nil {
		return nil
	}
	pt, ok := iv.Dyn.Underlying().(*types.Pointer)
	ptr, ok3 := iv.V.(*PtrVal)
	if !ok || !ok3 || ptr.Obj == 0 {
		return nil
	}
	c := e.C
	bav := e.sliceBacking(st, b)
	if bav == nil || !bav.Scalar {
		return nil
	}
	// a path whose condition is already contradictory (an unrolled loop continued beyond what the lengths allow)
	// ends here instead of paying for the matching queries below
	if e.quickValid(st, c.False()) {
		st.Dead = true
		return []callRes{}
	}
	var keys []string
	for k := range st.Ghost {
		if strings.HasPrefix(k, "asn1:") {
			keys = append(keys, k)
		}
	}
	sortStrings(keys)
	for _, k := range keys {
		rec, ok := st.Ghost[k].(*asn1Rec)
		if !ok || !types.Identical(rec.typ, pt.Elem()) {
			continue
		}
		if _, alive := st.Heap[rec.s.Obj]; !alive {
			continue
		}
		rav := e.sliceBacking(st, rec.s)
		kv := c.Var(c.FreshName("asn1k"), e.idxSort())
		goal := c.And(e.leIdx(rec.s.Len, b.Len),
			c.Implies(e.ltIdx(kv, rec.s.Len), c.Eq(e.sel(bav.C, c.Add(b.Off, kv)), e.sel(rav.C, c.Add(rec.s.Off, kv)))))
		if !e.quickValid(st, goal) {
			continue
		}
		e.store(st, ptr, rec.val)
		rest := &SliceVal{Obj: b.Obj, Path: b.Path, Off: c.Add(b.Off, rec.s.Len), Len: c.Sub(b.Len, rec.s.Len), Cap: c.Sub(b.Cap, rec.s.Len), Nil: c.False(), ElemT: b.ElemT}
		return []callRes{{st, TupleVal{rest, errNil(e)}}}
	}
	return nil
}

func sortStrings(s []string) {
	for i := 1; i < len(s); i++ {
		for j := i; j > 0 && s[j] < s[j-1]; j-- {
			s[j], s[j-1] = s[j-1], s[j]
		}
	}
}

func init() {
	intrinsics["encoding/asn1.Marshal"] = intrASN1Marshal
	declining["encoding/asn1.Marshal"] = true
	intrinsics["encoding/asn1.Unmarshal"] = intrASN1Unmarshal
	declining["encoding/asn1.Unmarshal"] = true
}

// bytes.IndexByte / strings.IndexByte, exact: the result is the least position holding the byte, or -1 when no
// position does.
func intrIndexByteExact(e *Exec, st *State, fr *Frame, args []Val, in ssa.Instruction, rt types.Type) []callRes {
	c := e.C
	sc, so, sl := e.seqOfVal(st, args[0])
	ch, ok := args[1].(*Term)
	if !ok || sc == nil {
		return nil
	}
	r := c.Fresh("index", e.idxSort())
	minus1 := e.idx(-1)
	k1 := c.Var(c.FreshName("k"), e.idxSort())
	k2 := c.Var(c.FreshName("k"), e.idxSort())
	none := c.Forall([]*Term{k1}, c.Implies(e.inRange(k1, sl), c.Not(c.Eq(e.sel(sc, c.Add(so, k1)), ch))))
	first := c.And(e.inRange(r, sl), c.Eq(e.sel(sc, c.Add(so, r)), ch),
		c.Forall([]*Term{k2}, c.Implies(e.inRange(k2, r), c.Not(c.Eq(e.sel(sc, c.Add(so, k2)), ch)))))
	st.assume(c.Ite(c.Eq(r, minus1), none, first))
	return []callRes{{st, r}}
}

func init() {
	intrinsics["bytes.IndexByte"] = intrIndexByteExact
	intrinsics["strings.IndexByte"] = intrIndexByteExact
	declining["bytes.IndexByte"] = true
	declining["strings.IndexByte"] = true
}

// ---- strings.Cut / CutPrefix / CutSuffix (and the bytes versions) through the Split / prefix models ----

func intrCut(e *Exec, st *State, fr *Frame, args []Val, in ssa.Instruction, rt types.Type) []callRes {
	tup, ok := rt.(*types.Tuple)
	if !ok || tup.Len() != 3 {
		return nil
	}
	// SplitN(s, sep, 2) decides it: one part = not found
	two := e.idx(2)
	if !e.IntMode {
		two = e.C.BVu(2, 64)
	}
	sliceT := types.NewSlice(tup.At(0).Type())
	var rs []callRes
	if _, isStr := args[0].(*StringVal); isStr {
		if r := e.splitExact(st, []Val{args[0], args[1], two}, true, sliceT); r != nil {
			rs = r
		} else {
			rs = intrSplitN(e, st, fr, []Val{args[0], args[1], two}, in, sliceT)
		}
	} else {
		rs = e.splitExact(st, []Val{args[0], args[1], two}, true, sliceT)
	}
	if rs == nil {
		return nil
	}
	var out []callRes
	for _, r := range rs {
		sl, ok := r.v.(*SliceVal)
		if !ok || sl.Obj == 0 || !sl.Len.IsConst() {
			return nil
		}
		av := e.sliceBacking(r.st, sl)
		if av == nil || av.List == nil {
			return nil
		}
		switch len(av.List) {
		case 1:
			out = append(out, callRes{r.st, TupleVal{av.List[0], e.zeroVal(r.st, tup.At(1).Type()), e.C.False()}})
		case 2:
			out = append(out, callRes{r.st, TupleVal{av.List[0], av.List[1], e.C.True()}})
		default:
			return nil
		}
	}
	return out
}

func intrCutAffix(suffix bool) intrinsic {
	return func(e *Exec, st *State, fr *Frame, args []Val, in ssa.Instruction, rt types.Type) []callRes {
		s, ok1 := args[0].(*StringVal)
		p, ok2 := args[1].(*StringVal)
		if !ok1 || !ok2 {
			return nil
		}
		c := e.C
		var t *Term
		if suffix {
			t = e.suffixTerm(st, s, p)
		} else {
			t = e.prefixTerm(st, s, p)
		}
		if t == nil {
			return nil
		}
		var r *StringVal
		if suffix {
			r = &StringVal{C: s.C, Off: s.Off, Len: c.Ite(t, c.Sub(s.Len, p.Len), s.Len)}
		} else {
			r = &StringVal{C: s.C, Off: c.Ite(t, c.Add(s.Off, p.Len), s.Off), Len: c.Ite(t, c.Sub(s.Len, p.Len), s.Len)}
		}
		return []callRes{{st, TupleVal{r, t}}}
	}
}

// ---- a regular expression compiled once (package-level regexp.MustCompile of a constant) and matched later ----

func intrRegexpCompile(withErr bool) intrinsic {
	return func(e *Exec, st *State, fr *Frame, args []Val, in ssa.Instruction, rt types.Type) []callRes {
		pat, ok := args[0].(*StringVal)
		if !ok {
			return nil
		}
		ps, isC := concreteString(pat)
		if !isC {
			return nil
		}
		var pt *types.Pointer
		if withErr {
			tup, ok := rt.(*types.Tuple)
			if !ok {
				return nil
			}
			pt, _ = tup.At(0).Type().(*types.Pointer)
		} else {
			pt, _ = rt.(*types.Pointer)
		}
		if pt == nil {
			return nil
		}
		if e.regexObjs == nil {
			e.regexObjs = map[int]string{}
		}
		id := e.newObj(st, &OpaqueVal{T: pt.Elem(), Name: "regexp"}, &ObjMeta{T: pt.Elem(), Fresh: true, Name: "regexp"})
		e.regexObjs[id] = ps
		p := &PtrVal{Obj: id, T: pt.Elem()}
		if withErr {
			return []callRes{{st, TupleVal{p, errNil(e)}}}
		}
		return []callRes{{st, p}}
	}
}

func intrRegexpMatchMethod(e *Exec, st *State, fr *Frame, args []Val, in ssa.Instruction, rt types.Type) []callRes {
	p, ok := args[0].(*PtrVal)
	if !ok || e.regexObjs == nil {
		return nil
	}
	pat, ok := e.regexObjs[p.Obj]
	if !ok {
		return nil
	}
	rs := intrRegexMatchString(e, st, fr, []Val{e.strConst(pat), args[1]}, in, rt)
	var out []callRes
	for _, r := range rs {
		if tv, ok := r.v.(TupleVal); ok && len(tv) == 2 {
			out = append(out, callRes{r.st, tv[0]})
		} else {
			return nil
		}
	}
	return out
}

func init() {
	for _, n := range []string{"strings.Cut", "bytes.Cut", "strings.CutPrefix", "strings.CutSuffix", "regexp.MustCompile", "regexp.Compile", "(*regexp.Regexp).MatchString"} {
		declining[n] = true
	}
	intrinsics["strings.Cut"] = intrCut
	intrinsics["bytes.Cut"] = intrCut
	intrinsics["strings.CutPrefix"] = intrCutAffix(false)
	intrinsics["strings.CutSuffix"] = intrCutAffix(true)
	intrinsics["regexp.MustCompile"] = intrRegexpCompile(false)
	intrinsics["regexp.Compile"] = intrRegexpCompile(true)
	intrinsics["(*regexp.Regexp).MatchString"] = intrRegexpMatchMethod
}

// pcConst: t with the constants the path condition fixes substituted, including variables fixed through an equation
// whose other side becomes constant (len(result) == 32 + len(x) with len(x) == 8); t itself when nothing applies.
func (e *Exec) pcConst(st *State, t *Term) *Term {
	if t.IsConst() {
		return t
	}
	m := constFacts(st.PC)
	if m == nil {
		m = map[*Term]*Term{}
	}
	for round := 0; round < 3; round++ {
		if r := e.C.Subst(t, m); r.IsConst() {
			return r
		}
		added := false
		var visit func(f *Term)
		visit = func(f *Term) {
			if f.Op == "and" {
				for _, a := range f.Args {
					visit(a)
				}
				return
			}
			if f.Op != "=" || len(f.Args) != 2 {
				return
			}
			a, b := f.Args[0], f.Args[1]
			for k := 0; k < 2; k++ {
				if a.Op == "var" && !a.S.IsBool() {
					if _, have := m[a]; !have {
						if r := e.C.Subst(b, m); r.IsConst() {
							m[a] = r
							added = true
						}
					}
				}
				a, b = b, a
			}
		}
		for _, f := range st.PC {
			visit(f)
		}
		if !added {
			break
		}
	}
	return e.C.Subst(t, m)
}
