package vc

import (
	"time"
	"fmt"
	"go/ast"
	"go/token"
	"go/types"
	"sort"
	"strings"

	"golang.org/x/tools/go/ssa"
)

type ReplayInfo struct {
	Fn     *ssa.Function
	Params []string
	Args   []Val
	St0    *State
}

type FnResult struct {
	Key         string
	Name        string
	Contract    *Contract
	Obls        []*Obligation
	OutOfSubset string
	Inlined     []string
	UsedContracts []string
	Intrinsics  []string
	Abstracted  []string
	LoopInfo    []string
	Notes       []string
	Paths       int
	Mode        string
	Ctx         *Ctx
	Exec        *Exec
	GenS        float64
}

// GenBudget bounds the symbolic execution of one function under contract (each attempt); zero means no bound. What
// takes longer is reported as a lost proof, never as a pass.
var GenBudget time.Duration

type VerifyOpts struct {
	ForceInt   bool // verify in mathematical-integer mode with exact wrap-around encoding (fallback for index arithmetic)
	SafetyOnly bool
	MaxPaths   int
	MaxSteps   int
	Prune      bool // check the feasibility of both sides of symbolic branches (second attempt after a path explosion)
}

func (w *World) newExec(fn *ssa.Function, ct *Contract, opts VerifyOpts, cuts map[loopKey]bool) *Exec {
	c := NewCtx()
	trueTerm, falseTerm = c.True(), c.False()
	rootName := ""
	if fn != nil {
		rootName = fnDisplay(fn)
	}
	for k, d := range w.SpecDecls {
		c.SpecFns[k] = d
	}
	e := &Exec{C: c, Prog: w.Prog, W: w, Root: fn, RootName: rootName, metaAll: map[int]*ObjMeta{}, labelCount: map[string]int{}, instrLabel: map[ssa.Instruction]string{},
		Inlined: map[string]bool{}, UsedContracts: map[string]bool{}, UsedIntrinsics: map[string]bool{}, Abstracted: map[string]bool{},
		MaxSteps: 3000000, MaxPaths: 4000, loopsCache: map[*ssa.Function]*loopInfo{}, symExit: map[*ssa.BasicBlock]bool{}, cutHeaders: cuts, globalIDs: map[*ssa.Global]int{}, inits: map[*ssa.Package]*initResult{}}
	if opts.MaxPaths > 0 {
		e.MaxPaths = opts.MaxPaths
	}
	if opts.MaxSteps > 0 {
		e.MaxSteps = opts.MaxSteps
	}
	e.SafetyOnly = opts.SafetyOnly
	e.prune = opts.Prune
	if GenBudget > 0 {
		e.deadline = time.Now().Add(GenBudget)
	}
	e.RootCt = ct
	if ct != nil {
		e.IntMode = ct.Mode == "int"
		e.Exact = ct.Exact
		e.NoSafety = ct.NoSafety
		if ct.MaxPaths > 0 {
			e.MaxPaths = ct.MaxPaths
		}
	}
	if opts.ForceInt {
		e.IntMode = true
		e.Exact = false
		e.forcedInt = true
	}
	e.GlobalInit = w.GlobalInit
	return e
}

// substLens replaces the lengths of string and slice fields inside a structure value by the constants the path
// condition fixes them to.
func (e *Exec) substLens(v Val, m map[*Term]*Term, depth int) (Val, bool) {
	if depth > 4 {
		return v, false
	}
	switch x := v.(type) {
	case *StringVal:
		if nl := e.C.Subst(x.Len, m); nl.IsConst() && nl != x.Len {
			nx := *x
			nx.Len = nl
			return &nx, true
		}
	case *SliceVal:
		if nl := e.C.Subst(x.Len, m); nl.IsConst() && nl != x.Len {
			nx := *x
			nx.Len = nl
			if nc := e.C.Subst(x.Cap, m); nc.IsConst() {
				nx.Cap = nc
			}
			return &nx, true
		}
	case *StructVal:
		var nf []Val
		for i, f := range x.Fields {
			if nv, ch := e.substLens(f, m, depth+1); ch {
				if nf == nil {
					nf = append([]Val{}, x.Fields...)
				}
				nf[i] = nv
			}
		}
		if nf != nil {
			return &StructVal{T: x.T, Named: x.Named, Fields: nf}, true
		}
	}
	return v, false
}

func paramName(p *ssa.Parameter, i int) string {
	if p.Name() == "" || p.Name() == "_" {
		return fmt.Sprintf("arg%d", i)
	}
	return p.Name()
}

// VerifyFn generates the obligations of one function against its contract (or safety only when ct == nil).
func (w *World) VerifyFn(fn *ssa.Function, ct *Contract, opts VerifyOpts) (res *FnResult) {
	cuts := map[loopKey]bool{}
	for attempt := 0; attempt < 12; attempt++ {
		r, restart := w.verifyOnce(fn, ct, opts, cuts)
		if restart != nil {
			cuts[*restart] = true
			continue
		}
		if opts.Prune && strings.HasPrefix(r.OutOfSubset, "path explosion") {
			w.pruneFailed++
		}
		if strings.HasPrefix(r.OutOfSubset, "path explosion") && !opts.Prune && w.pruneFailed < 2 {
			// (after two functions of a run for which the second attempt did not help either, it is not tried again:
			// a change that makes one helper explode makes every lemma through it explode)
			// most of the paths of an explosion contradict their own earlier branches; a second attempt asks the
			// solver at every branch (after the first 128) whether both sides are possible
			opts.Prune = true
			continue
		}
		return r
	}
	return &FnResult{Key: fn.String(), Name: fnDisplay(fn), Contract: ct, OutOfSubset: "too many loop-cut restarts"}
}

func (w *World) verifyOnce(fn *ssa.Function, ct *Contract, opts VerifyOpts, cuts map[loopKey]bool) (res *FnResult, restart *loopKey) {
	w.cur = ct
	e := w.newExec(fn, ct, opts, cuts)
	res = &FnResult{Key: fn.String(), Name: fnDisplay(fn), Contract: ct, Ctx: e.C, Exec: e, Mode: "bv"}
	if e.IntMode {
		res.Mode = "int"
		if e.Exact {
			res.Mode = "int exact"
		}
	}
	defer func() {
		if r := recover(); r != nil {
			switch x := r.(type) {
			case Bail:
				res.OutOfSubset = x.Reason
				res.Obls = nil
			case restartCut:
				k := x.h
				restart = &k
			default:
				panic(r)
			}
		}
		res.Inlined = keys(e.Inlined)
		res.UsedContracts = keys(e.UsedContracts)
		res.Intrinsics = keys(e.UsedIntrinsics)
		res.Abstracted = keys(e.Abstracted)
		res.LoopInfo = e.LoopInfo
		res.Notes = e.Notes
	}()
	if fn.Blocks == nil {
		e.bail("no body")
	}
	st := &State{Heap: map[int]Val{}, Maps: map[int]*MapState{}}
	args := make([]Val, len(fn.Params))
	vars := map[string]sv{}
	var pnames []string
	for i, p := range fn.Params {
		name := paramName(p, i)
		pnames = append(pnames, name)
		args[i] = e.symVal(st, p.Type(), name, 0)
		vars[name] = sv{V: args[i], T: p.Type()}
	}
	bindPositional(vars, fn, args)
	var pkg *types.Package
	if fn.Pkg != nil {
		pkg = fn.Pkg.Pkg
	}
	env := &SpecEnv{e: e, st: st, vars: vars, pkg: pkg, where: fnDisplay(fn)}
	if ct != nil {
		for _, g := range ct.Ghosts {
			env.vars[g.Name] = e.ghostVal(st, g)
		}
		for _, r := range ct.Requires {
			st.assume(env.Bool(r.Expr))
		}
		// a precondition that fixes the length of a parameter to a constant makes that length a syntactic
		// constant (offsets computed from it stay concrete, loops over it unroll)
		if m := constFacts(st.PC); len(m) > 0 {
			for i, a := range args {
				switch x := a.(type) {
				case *SliceVal:
					if nl := e.C.Subst(x.Len, m); nl.IsConst() && nl != x.Len {
						nx := *x
						nx.Len = nl
						if nc := e.C.Subst(x.Cap, m); nc.IsConst() {
							nx.Cap = nc
						}
						args[i] = &nx
						vars[pnames[i]] = sv{V: args[i], T: fn.Params[i].Type()}
					}
				case *StringVal:
					if nl := e.C.Subst(x.Len, m); nl.IsConst() && nl != x.Len {
						nx := *x
						nx.Len = nl
						args[i] = &nx
						vars[pnames[i]] = sv{V: args[i], T: fn.Params[i].Type()}
					}
				}
			}
			bindPositional(vars, fn, args)
			// the same for string / slice fields of the structures the parameters point to
			for id, root := range st.Heap {
				if nv, changed := e.substLens(root, m, 0); changed {
					st.Heap[id] = nv
				}
			}
		}
	}
	e.cover(st, "requires")
	e.Replay = &ReplayInfo{Fn: fn, Params: pnames, Args: args, St0: st.clone()}
	e.preState = st.clone()
	e.rootEnv = env
	e.stack = []*ssa.Function{fn}
	outs := e.execFunc(st, fn, args, nil, 0)
	res.Paths = len(outs)
	nret := 0
	for _, o := range outs {
		if o.Panic || o.St.Dead {
			continue
		}
		nret++
		if nret <= 512 {
			e.cover(o.St, "return")
		}
		if ct == nil {
			continue
		}
		penv := &SpecEnv{e: e, st: o.St, old: e.preState, vars: map[string]sv{}, pkg: pkg, where: fnDisplay(fn)}
		for k, v := range env.vars {
			penv.vars[k] = v
		}
		bindResults(penv, fn, o.Results)
		for _, en := range ct.Ensures {
			// a postcondition tagged for other properties only is decided by those properties' checks; here it
			// is neither checked nor assumed (assuming it would let a broken clause make the later ones vacuous)
			if w.Prop != "" && len(en.Props) > 0 {
				mine := false
				for _, p := range en.Props {
					if p == w.Prop {
						mine = true
					}
				}
				if !mine {
					continue
				}
			}
			g := penv.Bool(en.Expr)
			e.obligeL(o.St, "post", en.Label, token.Position{}, g, en.Props)
		}
	}
	res.Obls = e.Obls
	return res, nil
}

func bindResults(env *SpecEnv, fn *ssa.Function, results []Val) {
	rs := fn.Signature.Results()
	for i := 0; i < rs.Len(); i++ {
		v := sv{V: results[i], T: rs.At(i).Type()}
		env.vars[fmt.Sprintf("result%d", i)] = v
		if n := rs.At(i).Name(); n != "" && n != "_" {
			env.vars[n] = v
		}
		if i == rs.Len()-1 && rs.At(i).Type().String() == "error" {
			if _, taken := env.vars["err"]; !taken {
				env.vars["err"] = v
			}
		}
	}
}

func keys(m map[string]bool) []string {
	var out []string
	for k := range m {
		out = append(out, k)
	}
	sort.Strings(out)
	return out
}

func (e *Exec) ghostVal(st *State, g Ghost) sv {
	c := e.C
	switch g.Type {
	case "bytes":
		l := c.Var("ghost."+g.Name+".len", e.idxSort())
		st.assume(e.lenFact(l))
		base := e.arrBase("ghost."+g.Name+".arr", types.Typ[types.Uint8])
		return sv{V: &SeqVal{Len: l, At: func(i *Term) *Term { return e.sel(base, i) }, Elem: base.Elem, ET: types.Typ[types.Uint8]}}
	case "bool":
		return sv{V: c.Var("ghost."+g.Name, BoolS), T: types.Typ[types.Bool]}
	case "mathint":
		return sv{V: c.Var("ghost."+g.Name, IntS), T: types.Typ[types.Int64]}
	}
	if t, ok := basicByName[g.Type]; ok {
		v := c.Var("ghost."+g.Name, e.sortOf(t))
		st.assume(e.rangeFact(v, t))
		return sv{V: v, T: t}
	}
	e.bail("unsupported ghost type %s", g.Type)
	return sv{}
}

// applyContract: modular call — check pre, havoc frame, assume post.
func (e *Exec) applyContract(st *State, fr *Frame, fn *ssa.Function, ct *Contract, args []Val, in ssa.Instruction, rt types.Type) []callRes {
	if ct.Mode == "int" != e.IntMode && !e.forcedInt {
		e.bail("call from %s-mode function into %s-mode contract %s", map[bool]string{true: "int", false: "bv"}[e.IntMode], ct.Mode, ct.Func)
	}
	var pkg *types.Package
	if fn.Pkg != nil {
		pkg = fn.Pkg.Pkg
	}
	env := &SpecEnv{e: e, st: st, vars: map[string]sv{}, pkg: pkg, where: "call " + fnDisplay(fn)}
	for i, p := range fn.Params {
		env.vars[paramName(p, i)] = sv{V: args[i], T: p.Type()}
	}
	bindPositional(env.vars, fn, args)
	if len(ct.Ghosts) > 0 {
		e.bail("contract of %s has ghost variables; not usable at call sites yet", ct.Func)
	}
	for _, r := range ct.Requires {
		g := env.Bool(r.Expr)
		label := ""
		if in != nil {
			label = e.labelFor(in)
		}
		e.obligeL(st, "pre", fmt.Sprintf("%s requires %s", label, r.Text), e.posOfOpt(in), g, nil)
		if st.Dead {
			return nil
		}
	}
	// recursion: the callee's measure must decrease with respect to the verified activation's entry state
	if fn == e.Root && ct.Decreases != nil && e.rootEnv != nil {
		m1v := env.eval(ct.Decreases.Expr)
		m1, _ := env.term(m1v, sv{V: e.idx(0), T: types.Typ[types.Int]})
		renv := &SpecEnv{e: e, st: e.preState, vars: e.rootEnv.vars, pkg: pkg, where: env.where}
		m0v := renv.eval(ct.Decreases.Expr)
		m0, _ := renv.term(m0v, sv{V: e.idx(0), T: types.Typ[types.Int]})
		g := e.C.And(e.C.Lt(m1, m0, true), e.C.Le(zeroOf(e.C, m1.S), m1, true))
		e.obligeL(st, "dec", "recursive call: "+ct.Decreases.Text, e.posOfOpt(in), g, nil)
	} else if fn == e.Root && e.rootEnv != nil {
		e.Notes = append(e.Notes, "recursive call without `decreases`: termination of the recursion not decided")
	}
	detKey := ""
	if ct.Deterministic {
		detKey = e.detKey(st, fn, args)
		if detKey != "" {
			e.UsedIntrinsics["assumed deterministic (equal arguments give equal results): "+fnDisplay(fn)] = true
			if m, ok := st.Ghost[detKey].(*detMemo); ok {
				return []callRes{{st, packResults(e.detReuse(st, m))}}
			}
		}
	}
	old := st.clone()
	objMark := e.nextObj
	// frame
	if ct.HasMod {
		for _, m := range ct.Modifies {
			e.havocLocation(st, env, m)
		}
	} else if len(fn.Params) > 0 && fn.Signature.Recv() != nil {
		recv := args[0]
		if iv, ok := recv.(*IfaceVal); ok && iv.V != nil {
			recv = iv.V // call through an interface contract: the frame is the dynamic receiver
		}
		if p, ok := recv.(*PtrVal); ok && p.Obj != 0 {
			e.havocDeep(st, p, 0, "ret."+fn.Name())
		}
	}
	// results
	rs := fn.Signature.Results()
	results := make([]Val, rs.Len())
	for i := 0; i < rs.Len(); i++ {
		results[i] = e.freshResultVal(st, rs.At(i).Type(), fmt.Sprintf("ret.%s.%d", fn.Name(), i))
	}
	penv := &SpecEnv{e: e, st: st, old: old, vars: env.vars, pkg: pkg, where: env.where}
	penv.vars = map[string]sv{}
	for k, v := range env.vars {
		penv.vars[k] = v
	}
	bindResults(penv, fn, results)
	for _, en := range ct.Ensures {
		e.defineFromEnsures(st, penv, en.Expr, objMark)
		st.assume(penv.Bool(en.Expr))
	}
	if st.Dead {
		return nil
	}
	// lengths that the contract fixes to constants become syntactic constants (so that loops over the
	// result unroll and quantifier bounds expand)
	if m := constFacts(st.PC); len(m) > 0 {
		for i, r := range results {
			if sv, ok := r.(*SliceVal); ok && sv.Obj != 0 {
				nl := e.C.Subst(sv.Len, m)
				if nl.IsConst() && nl != sv.Len {
					nsv := *sv
					nsv.Len = nl
					if c2 := e.C.Subst(sv.Cap, m); c2.IsConst() {
						nsv.Cap = c2
					}
					results[i] = &nsv
				}
			}
		}
	}
	if detKey != "" {
		m := &detMemo{results: results, roots: map[int]Val{}}
		for _, r := range results {
			if sl, ok := r.(*SliceVal); ok && sl.Obj != 0 {
				m.roots[sl.Obj] = e.root(st, sl.Obj)
			}
		}
		if st.Ghost == nil {
			st.Ghost = map[string]Val{}
		}
		st.Ghost[detKey] = m
	}
	return []callRes{{st, packResults(results)}}
}

// detMemo: results of an earlier call of a `deterministic` function on this path (slice results with the contents
// they had when returned).
type detMemo struct {
	results []Val
	roots   map[int]Val
}

// detKey identifies a call by its argument values; only scalar and string arguments (immutable) qualify.
func (e *Exec) detKey(st *State, fn *ssa.Function, args []Val) string {
	k := "det:" + fn.String()
	for _, a := range args {
		switch x := a.(type) {
		case *SliceVal:
			// a slice of scalars is identified by its current contents (an immutable value: every write makes
			// a new one), offset and length
			if x.Obj == 0 {
				k += "|nil" + fmt.Sprint(x.Len.ID())
				continue
			}
			av := e.sliceBacking(st, x)
			if av == nil || !av.Scalar {
				return ""
			}
			k += fmt.Sprintf("|b%p.%d.%d", av.C, x.Off.ID(), x.Len.ID())
		case *Term:
			k += fmt.Sprintf("|t%d", x.ID())
		case *StringVal:
			k += fmt.Sprintf("|s%p.%d.%d", x.C, x.Off.ID(), x.Len.ID())
		case *ArrayVal:
			// array values are immutable: the same value object is the same array
			k += fmt.Sprintf("|a%p", x)
		default:
			return ""
		}
	}
	return k
}

func (e *Exec) detReuse(st *State, m *detMemo) []Val {
	out := make([]Val, len(m.results))
	for i, r := range m.results {
		if sl, ok := r.(*SliceVal); ok && sl.Obj != 0 {
			om := *e.metaAll[sl.Obj]
			id := e.newObj(st, m.roots[sl.Obj], &om)
			ns := *sl
			ns.Obj = id
			out[i] = &ns
			continue
		}
		out[i] = r
	}
	return out
}

// defineFromEnsures: a top-level conjunct `eq(L, R)` of a postcondition, where L is a slice over an object
// created by this very call (a fresh result, or the havoc'd backing of a modified field) whose contents are
// still an unconstrained base array, is turned into a definition of those contents: the first len(R) cells
// are R's elements, the rest stays the unconstrained base. The conjunct itself is still assumed afterwards
// (it then folds to true unless R mentions L), so this only changes the shape of the fact: reads of L
// resolve to R's terms instead of needing a quantifier instantiation.
func (e *Exec) defineFromEnsures(st *State, penv *SpecEnv, x ast.Expr, objMark int) {
	switch n := x.(type) {
	case *ast.ParenExpr:
		e.defineFromEnsures(st, penv, n.X, objMark)
	case *ast.BinaryExpr:
		if n.Op == token.LAND {
			e.defineFromEnsures(st, penv, n.X, objMark)
			e.defineFromEnsures(st, penv, n.Y, objMark)
		}
	case *ast.CallExpr:
		id, ok := n.Fun.(*ast.Ident)
		if !ok || id.Name != "eq" || len(n.Args) != 2 {
			return
		}
		switch n.Args[0].(type) {
		case *ast.Ident, *ast.SelectorExpr:
		default:
			return
		}
		lv := penv.eval(n.Args[0])
		sl, ok := lv.V.(*SliceVal)
		if !ok || sl.Obj == 0 || sl.Obj <= objMark || !sl.Off.IsConst() || sl.Off.C.Sign() != 0 {
			return
		}
		av := e.sliceBacking(st, sl)
		if !av.Scalar {
			return
		}
		base, ok := av.C.(*ArrBase)
		if !ok {
			return
		}
		rs := penv.seq(penv.eval(n.Args[1]))
		if rs.Elem != av.Elem {
			return
		}
		e.arrFnID++
		nav := *av
		nav.C = &ArrSplice{Base: base, DstOff: e.idx(0), Src: &ArrFn{ID: e.arrFnID, F: rs.At}, SrcOff: e.idx(0), N: rs.Len}
		st.Heap[sl.Obj] = e.update(st, e.root(st, sl.Obj), sl.Path, func(Val) Val { return &nav })
	}
}

func (e *Exec) posOfOpt(in ssa.Instruction) token.Position {
	if in == nil {
		return token.Position{}
	}
	return e.posOf(in)
}

func (e *Exec) freshResultVal(st *State, t types.Type, name string) Val {
	c := e.C
	name = c.FreshName(name)
	switch u := t.Underlying().(type) {
	case *types.Slice:
		if isScalarType(u.Elem()) {
			s := e.freshSliceObj(st, u.Elem(), name)
			e.metaAll[s.Obj].Growable = false
			return s
		}
		return e.freshSliceObj(st, u.Elem(), name)
	case *types.Pointer:
		id := e.newObj(st, &LazyVal{T: u.Elem(), Name: name + "."}, &ObjMeta{T: u.Elem(), Name: name, Fresh: true})
		// may be nil: callers that need non-nil must get it from the contract; model as non-nil object + note
		return &PtrVal{Obj: id, T: u.Elem()}
	}
	return e.symVal(st, t, name, 0)
}

// havocDeep replaces the contents of the object p points to (and objects reachable through pointer fields, depth-limited).
func (e *Exec) havocDeep(st *State, p *PtrVal, depth int, name string) {
	if p.Obj == 0 || depth > 3 {
		return
	}
	if st.Record != nil {
		st.Record.note(p.Obj, p.Path)
	}
	cur := e.load(st, p)
	nv := e.havocFrame(st, cur, p.T, name, depth)
	st.Heap[p.Obj] = e.update(st, e.root(st, p.Obj), p.Path, func(Val) Val { return nv })
}

func (e *Exec) havocFrame(st *State, v Val, t types.Type, name string, depth int) Val {
	switch x := v.(type) {
	case *SliceVal:
		if isScalarType(x.ElemT) {
			s := e.freshSliceObj(st, x.ElemT, name)
			e.metaAll[s.Obj].Growable = false
			return s
		}
		return e.freshSliceObj(st, x.ElemT, name)
	case *PtrVal:
		if x.Obj != 0 {
			e.havocDeep(st, x, depth+1, name)
		}
		return x
	case *StructVal:
		n := &StructVal{T: x.T, Named: x.Named, Fields: make([]Val, len(x.Fields))}
		for i := range x.Fields {
			n.Fields[i] = e.havocFrame(st, x.Fields[i], x.T.Field(i).Type(), name+"."+x.T.Field(i).Name(), depth)
		}
		return n
	case *LazyVal:
		return &LazyVal{T: x.T, Name: e.C.FreshName(x.Name)}
	case *IfaceVal:
		if x.Dyn != nil && !x.Opaque {
			return &IfaceVal{Dyn: x.Dyn, V: e.havocFrame(st, x.V, x.Dyn, name, depth), IsNil: x.IsNil}
		}
	}
	return e.havocVal(st, v, t, name)
}

// havocLocation havocs the location denoted by a modifies expression.
func (e *Exec) havocLocation(st *State, env *SpecEnv, x ast.Expr) {
	switch n := x.(type) {
	case *ast.SelectorExpr:
		base := env.eval(n.X)
		p, ok := base.V.(*PtrVal)
		if !ok {
			env.fail("modifies %s: base is not a pointer", exprText(x))
		}
		sv0 := e.load(st, p)
		s, ok := sv0.(*StructVal)
		if !ok {
			env.fail("modifies %s: not a struct", exprText(x))
		}
		for i := 0; i < s.T.NumFields(); i++ {
			if s.T.Field(i).Name() == n.Sel.Name {
				loc := &PtrVal{Obj: p.Obj, Path: appendPath(p.Path, PathElem{Field: i}), T: s.T.Field(i).Type()}
				e.havocDeep(st, loc, 0, "mod."+n.Sel.Name)
				return
			}
		}
		env.fail("modifies %s: no such field", exprText(x))
	default:
		v := env.eval(x)
		switch y := v.V.(type) {
		case *PtrVal:
			e.havocDeep(st, y, 0, "mod")
		case *SliceVal:
			if y.Obj != 0 {
				av := e.sliceBacking(st, y)
				if av.Scalar {
					if st.Record != nil {
						st.Record.note(y.Obj, y.Path)
					}
					// only the window [off, off+len) may change
					fresh := e.arrBase(e.C.FreshName("mod.arr"), av.ElemT)
					nav := &ArrayVal{ElemT: av.ElemT, Scalar: true, Elem: av.Elem, C: &ArrSplice{Base: av.C, DstOff: y.Off, Src: fresh, SrcOff: y.Off, N: y.Len}, Len: av.Len}
					st.Heap[y.Obj] = e.update(st, e.root(st, y.Obj), y.Path, func(Val) Val { return nav })
				}
			}
		default:
			env.fail("modifies %s: not a location", exprText(x))
		}
	}
}

// evalLoopClause evaluates a loop invariant with the phi variables bound to vals.
func (e *Exec) evalLoopClause(st *State, fr *Frame, u *LoopClause, phis []*ssa.Phi, vals []Val) *Term {
	env := e.loopEnv(st, fr, phis, vals)
	return env.Bool(u.Expr)
}

func (e *Exec) evalLoopMeasure(st *State, fr *Frame, u *LoopClause, phis []*ssa.Phi, vals []Val) *Term {
	env := e.loopEnv(st, fr, phis, vals)
	v := env.eval(u.Expr)
	t, _ := env.term(v, sv{V: e.idx(0), T: types.Typ[types.Int]})
	return t
}

func (e *Exec) loopEnv(st *State, fr *Frame, phis []*ssa.Phi, vals []Val) *SpecEnv {
	var pkg *types.Package
	if fr.Fn.Pkg != nil {
		pkg = fr.Fn.Pkg.Pkg
	}
	env := &SpecEnv{e: e, st: st, old: e.preState, vars: map[string]sv{}, pkg: pkg, where: fnDisplay(fr.Fn) + " loop"}
	if fr.Depth == 0 && e.rootEnv != nil {
		for k, v := range e.rootEnv.vars {
			env.vars[k] = v
		}
	}
	env.entry = map[string]sv{}
	for i, p := range fr.Fn.Params {
		if v, ok := fr.Env[p]; ok {
			env.vars[paramName(p, i)] = sv{V: v, T: p.Type()}
			env.entry[paramName(p, i)] = sv{V: v, T: p.Type()}
		}
	}
	// named locals that live in allocs
	for v, val := range fr.Env {
		if a, ok := v.(*ssa.Alloc); ok && a.Comment != "" && !strings.Contains(a.Comment, " ") {
			if p, ok := val.(*PtrVal); ok && p.Obj != 0 {
				if _, live := st.Heap[p.Obj]; live {
					env.vars[a.Comment] = sv{V: e.load(st, p), T: p.T}
				}
			}
		}
	}
	// named locals that are plain SSA values (x := expr): the debug references of the function map the
	// defining identifier to the value
	for _, b := range fr.Fn.Blocks {
		for _, in := range b.Instrs {
			dr, ok := in.(*ssa.DebugRef)
			if !ok || dr.IsAddr {
				continue
			}
			id, ok := dr.Expr.(*ast.Ident)
			if !ok || id.Name == "_" {
				continue
			}
			if _, have := env.vars[id.Name]; have {
				continue
			}
			if _, isPhi := dr.X.(*ssa.Phi); isPhi {
				continue
			}
			if v, ok := fr.Env[dr.X]; ok && v != nil {
				if obj := dr.Object(); obj != nil && obj.Pos() == id.Pos() {
					env.vars[id.Name] = sv{V: v, T: dr.X.Type()}
				}
			}
		}
	}
	// loop-carried variables of enclosing loops (their phi nodes are ordinary values here)
	for v, val := range fr.Env {
		if ph, ok := v.(*ssa.Phi); ok && ph.Comment != "" && val != nil {
			if _, have := env.vars[ph.Comment]; !have {
				env.vars[ph.Comment] = sv{V: val, T: ph.Type()}
			}
		}
	}
	for k, ph := range phis {
		if ph.Comment != "" {
			env.vars[ph.Comment] = sv{V: vals[k], T: ph.Type()}
		}
		env.vars[ph.Name()] = sv{V: vals[k], T: ph.Type()}
	}
	return env
}

// VerifyLemma: a pure specification-level obligation: requires ==> ensures over ghost variables.
func (w *World) VerifyLemma(ct *Contract, pkg *types.Package) (res *FnResult) {
	w.cur = ct
	e := w.newExec(nil, ct, VerifyOpts{}, map[loopKey]bool{})
	e.RootName = "lemma " + strings.TrimPrefix(ct.Key, "lemma:"+modulePath+"/")
	res = &FnResult{Key: ct.Key, Name: e.RootName, Contract: ct, Ctx: e.C, Exec: e, Mode: ct.Mode}
	defer func() {
		if r := recover(); r != nil {
			if b, ok := r.(Bail); ok {
				res.OutOfSubset = b.Reason
				res.Obls = nil
				return
			}
			panic(r)
		}
	}()
	st := &State{Heap: map[int]Val{}, Maps: map[int]*MapState{}}
	env := &SpecEnv{e: e, st: st, vars: map[string]sv{}, pkg: pkg, where: e.RootName}
	for _, g := range ct.Ghosts {
		env.vars[g.Name] = e.ghostVal(st, g)
	}
	for _, r := range ct.Requires {
		st.assume(env.Bool(r.Expr))
	}
	e.cover(st, "requires")
	for _, en := range ct.Ensures {
		e.obligeL(st, "lemma", en.Label, token.Position{}, env.Bool(en.Expr), en.Props)
	}
	res.Obls = e.Obls
	res.Paths = 1
	return res
}

// VerifyTable evaluates closed checks over a package-level map literal, as built by the package
// initialiser of the current tree (executed by this engine), against the constants declared in the source.
//   total          every declared constant of the key type is a key
//   unique         the string values are pairwise distinct
//   nonplaceholder no value is empty or an "unknown" placeholder
//   nonnil         every (error / pointer / interface) value is non-nil
func (w *World) VerifyTable(ct *Contract, pkg *ssa.Package) (res *FnResult) {
	w.cur = ct
	e := w.newExec(nil, ct, VerifyOpts{}, map[loopKey]bool{})
	e.RootName = "table " + strings.TrimPrefix(strings.TrimPrefix(ct.Key, "table:"), modulePath+"/")
	res = &FnResult{Key: ct.Key, Name: e.RootName, Contract: ct, Ctx: e.C, Exec: e, Mode: "closed evaluation", Paths: 1}
	defer func() {
		if r := recover(); r != nil {
			if b, ok := r.(Bail); ok {
				res.OutOfSubset = b.Reason
				res.Obls = nil
				return
			}
			panic(r)
		}
	}()
	g, ok := pkg.Members[ct.Func].(*ssa.Global)
	if !ok {
		e.bail("no package-level variable %s", ct.Func)
	}
	ir := e.ensureInit(pkg)
	if ir == nil {
		e.bail("package initialiser could not be evaluated")
	}
	if ir.mutated[g] {
		e.bail("table %s is assigned outside the package initialiser", ct.Func)
	}
	root, ok := ir.heap[ir.ids[g]].(*MapVal)
	if !ok || root.Obj == 0 {
		e.bail("%s is not an initialised map", ct.Func)
	}
	ms := ir.maps[root.Obj]
	if ms == nil || ms.Abstract {
		e.bail("map contents of %s are not concrete", ct.Func)
	}
	st := &State{Heap: map[int]Val{}, Maps: map[int]*MapState{}}
	keyset := map[string]bool{}
	for _, k := range ms.Keys {
		if s, okc := e.constKey(k); okc {
			keyset[s] = true
		}
	}
	for _, ck := range ct.Checks {
		var bad []string
		for _, word := range strings.Fields(ck.Text) {
			switch word {
			case "total":
				if ct.KeyType == "" {
					e.bail("table check `total` needs `keys <Type>`")
				}
				scope := pkg.Pkg.Scope()
				n := 0
				for _, name := range scope.Names() {
					cst, okc := scope.Lookup(name).(*types.Const)
					if !okc {
						continue
					}
					nt, okn := cst.Type().(*types.Named)
					if !okn || nt.Obj().Name() != ct.KeyType {
						continue
					}
					n++
					sv := (&SpecEnv{e: e, st: st, pkg: pkg.Pkg, where: e.RootName}).constObj(cst)
					key, _ := e.constKey(sv.V)
					if !keyset[key] {
						bad = append(bad, "constant "+name+" is not a key")
					}
				}
				if n == 0 {
					bad = append(bad, "no constant of type "+ct.KeyType+" declared")
				}
			case "unique", "nonplaceholder":
				seen := map[string]string{}
				for i, v := range ms.Vals {
					sv, okv := v.(*StringVal)
					if !okv {
						continue
					}
					str, okc := concreteString(sv)
					if !okc {
						bad = append(bad, "value is not a literal")
						continue
					}
					kd, _ := e.constKey(ms.Keys[i])
					if word == "unique" {
						if prev, dup := seen[str]; dup {
							bad = append(bad, fmt.Sprintf("value %q is used for keys %s and %s", str, prev, kd))
						}
						seen[str] = kd
					} else {
						low := strings.ToLower(str)
						if str == "" || low == "unknown" || low == "undefined" || low == "todo" || low == "placeholder" {
							bad = append(bad, fmt.Sprintf("key %s has placeholder value %q", kd, str))
						}
					}
				}
			case "nonnil":
				for i, v := range ms.Vals {
					kd, _ := e.constKey(ms.Keys[i])
					switch x := v.(type) {
					case *IfaceVal:
						if !x.IsNil.IsFalse() {
							bad = append(bad, "key "+kd+" maps to a possibly nil value")
						}
					case *PtrVal:
						if x.Obj == 0 {
							bad = append(bad, "key "+kd+" maps to nil")
						}
					}
				}
			default:
				if meth, okm := strings.CutPrefix(word, "renders:"); okm {
					// the accessor method of the key type, run by this engine on every key of the table, returns
					// exactly the table's value for that key (a lookup re-implemented over another structure, an
					// off-by-one bound or a default that shadows an entry fails here)
					bad = append(bad, e.tableRenders(pkg, ct, ms, meth)...)
					continue
				}
				e.bail("unknown table check %q", word)
			}
		}
		o := &Obligation{Fn: e.RootName, Kind: "table", Label: ck.Label, Props: ck.Props, Name: fmt.Sprintf("%s#table:%s", e.RootName, ck.Label), Goal: e.C.Bool(len(bad) == 0)}
		if len(bad) == 0 {
			o.Trivial, o.Status = true, "trivial"
		} else {
			o.Status = "sat"
			if len(bad) > 8 {
				bad = append(bad[:8], fmt.Sprintf("... and %d more", len(bad)-8))
			}
			o.Raw = strings.Join(bad, "; ")
			o.Closed = true
		}
		e.Obls = append(e.Obls, o)
	}
	o := &Obligation{Fn: e.RootName, Kind: "table", Label: "entries", Name: e.RootName + "#table:nonempty", Goal: e.C.Bool(len(ms.Keys) > 0)}
	if len(ms.Keys) > 0 {
		o.Trivial, o.Status = true, "trivial"
	} else {
		o.Status, o.Raw, o.Closed = "sat", "table is empty", true
	}
	e.Obls = append(e.Obls, o)
	res.Notes = append(res.Notes, fmt.Sprintf("%d entries evaluated from the package initialiser", len(ms.Keys)))
	res.Obls = e.Obls
	return res
}

// tableRenders: see the `renders:<Method>` table check.
func (e *Exec) tableRenders(pkg *ssa.Package, ct *Contract, ms *MapState, meth string) (bad []string) {
	if ct.KeyType == "" {
		e.bail("table check `renders:` needs `keys <Type>`")
	}
	obj := pkg.Pkg.Scope().Lookup(ct.KeyType)
	if obj == nil {
		e.bail("no type %s", ct.KeyType)
	}
	sel := pkg.Prog.MethodSets.MethodSet(obj.Type()).Lookup(pkg.Pkg, meth)
	if sel == nil {
		sel = pkg.Prog.MethodSets.MethodSet(types.NewPointer(obj.Type())).Lookup(pkg.Pkg, meth)
	}
	if sel == nil {
		e.bail("type %s has no method %s", ct.KeyType, meth)
	}
	fn := pkg.Prog.MethodValue(sel)
	if fn == nil || fn.Blocks == nil || len(fn.Params) != 1 {
		e.bail("method %s.%s cannot be evaluated", ct.KeyType, meth)
	}
	if _, isPtr := fn.Params[0].Type().(*types.Pointer); isPtr {
		e.bail("method %s.%s has a pointer receiver", ct.KeyType, meth)
	}
	for i, k := range ms.Keys {
		kd, _ := e.constKey(k)
		want, okw := ms.Vals[i].(*StringVal)
		if !okw {
			continue
		}
		ws, okc := concreteString(want)
		if !okc {
			continue
		}
		st := &State{Heap: map[int]Val{}, Maps: map[int]*MapState{}}
		outs := e.execFunc(st, fn, []Val{k}, nil, 1)
		if len(outs) != 1 || outs[0].Panic || len(outs[0].Results) != 1 {
			bad = append(bad, fmt.Sprintf("%s(%s).%s() does not evaluate to one value", ct.KeyType, kd, meth))
			continue
		}
		got, okg := outs[0].Results[0].(*StringVal)
		gs, okgc := "", false
		if okg {
			gs, okgc = concreteString(got)
		}
		if !okgc {
			bad = append(bad, fmt.Sprintf("%s(%s).%s() is not a constant string", ct.KeyType, kd, meth))
		} else if gs != ws {
			bad = append(bad, fmt.Sprintf("%s(%s).%s() = %q, the table says %q", ct.KeyType, kd, meth, gs, ws))
		}
	}
	return bad
}

// bindPositional adds the aliases recv / arg1, arg2, ... (used by interface contracts, whose
// implementations name their parameters differently).
func bindPositional(vars map[string]sv, fn *ssa.Function, args []Val) {
	off := 0
	if fn.Signature.Recv() != nil && len(fn.Params) > 0 {
		if _, taken := vars["recv"]; !taken {
			vars["recv"] = sv{V: args[0], T: fn.Params[0].Type()}
		}
		off = 1
	}
	for i := off; i < len(fn.Params) && i < len(args); i++ {
		n := fmt.Sprintf("arg%d", i-off+1)
		if _, taken := vars[n]; !taken {
			vars[n] = sv{V: args[i], T: fn.Params[i].Type()}
		}
	}
}
