package vc

import (
	"fmt"
	"go/ast"
	"go/parser"
	"go/token"
	"os"
	"regexp"
	"strconv"
	"strings"
)

type Clause struct {
	Props []string
	Label string
	Text  string
	Expr  ast.Expr
}

type LoopClause struct {
	Loop  int
	Kind  string // invariant | decreases | unroll
	Text  string
	Expr  ast.Expr
	Props []string
	N     int
}

type UnrollIn struct {
	Fn  string
	Ord int
	N   int
}

type Ghost struct {
	Name string
	Type string
}

type Contract struct {
	Key      string
	PkgPath  string
	Func     string
	Mode     string // "bv" (default) or "int"
	Exact    bool
	Ghosts   []Ghost
	Requires []*Clause
	Ensures  []*Clause
	Modifies []ast.Expr
	HasMod   bool
	Loops    []*LoopClause
	Bounds   map[string]int
	Ifaces   map[string]string
	MayNil   []string
	Inline   bool
	Extend   bool // this block adds clauses to the contract of the same function declared in another file
	UnrollIn []UnrollIn // loops of expanded callees that are unrolled (callee display-name suffix, loop ordinal, bound)
	PreferInt bool // verify in mathematical-integer mode first (callee contracts are mode-agnostic then)
	Expand   []string // callees (display-name suffixes) whose body is expanded in this function although they have a contract
	Trusted  bool
	Models   map[string]bool // library components replaced by a deterministic-function model in this function (e.g. md4)
	ThoroughOnly bool // verified in the thorough tier only (deeper instances of a lemma family)
	Deterministic bool // calls with equal scalar/string arguments return equal results (assumed, listed in the evidence)
	Schema   string
	File     string
	Props    map[string]bool
	PanicsIf []*Clause
	NoSafety bool
	Lemmas   []string
	MaxPaths int
	Alias    [][2]string
	Lemma    bool
	Table    bool
	KeyType  string
	Checks   []*Clause
	Decreases *Clause
	Abstract bool // interface contract without postconditions: calls are abstracted (fresh results), nothing is assumed
	Iface    bool            // contract of an interface method: every implementation is verified against it
	Impls    []string        // keys of the implementing methods
}

var clauseHead = regexp.MustCompile(`^(deterministic|thorough-only|model|extend|unroll-in|prefer-int|expand|abstract|keys|check|mode|ghost|requires|ensures|modifies|loop|bound|iface|maynil|inline|trusted|panics-if|nosafety|maxpaths|alias|decreases)\b(.*)$`)
var tagRe = regexp.MustCompile(`^\s*\[([^\]]+)\]\s*(.*)$`)

// ParseContractFile parses the //@ lines of one file. pkgPath is the import path of its package.
func ParseContractFile(path, pkgPath string) ([]*Contract, error) {
	b, err := os.ReadFile(path)
	if err != nil {
		return nil, err
	}
	return ParseContractSource(string(b), path, pkgPath)
}

// ParseContractSource parses //@ lines from source text (used for files and for schema-generated contracts).
func ParseContractSource(src, path, pkgPath string) ([]*Contract, error) {
	b := []byte(src)
	var err error
	_ = err
	var out []*Contract
	var cur *Contract
	type pending struct {
		head string
		rest string
		line int
	}
	var pend *pending
	flush := func() error {
		if pend == nil || cur == nil {
			pend = nil
			return nil
		}
		p := pend
		pend = nil
		return cur.addClause(p.head, strings.TrimSpace(p.rest), fmt.Sprintf("%s:%d", path, p.line))
	}
	for ln, line := range strings.Split(string(b), "\n") {
		t := strings.TrimSpace(line)
		if strings.HasPrefix(t, "// @") { // gofmt rewrites //@ in doc-comment position
			t = "//@" + t[4:]
		}
		if !strings.HasPrefix(t, "//@") {
			continue
		}
		t = strings.TrimSpace(strings.TrimPrefix(t, "//@"))
		if t == "" {
			continue
		}
		if i := strings.Index(t, " // "); i >= 0 {
			t = strings.TrimSpace(t[:i])
		}
		if strings.HasPrefix(t, "table ") {
			if err := flush(); err != nil {
				return nil, err
			}
			name := strings.TrimSpace(strings.TrimPrefix(t, "table "))
			cur = &Contract{PkgPath: pkgPath, Func: name, Mode: "bv", Bounds: map[string]int{}, Ifaces: map[string]string{}, File: path, Props: map[string]bool{}, Table: true, Lemma: true}
			cur.Key = "table:" + pkgPath + "." + name
			continue
		}
		if strings.HasPrefix(t, "lemma ") {
			if err := flush(); err != nil {
				return nil, err
			}
			name := strings.TrimSpace(strings.TrimPrefix(t, "lemma "))
			cur = &Contract{PkgPath: pkgPath, Func: name, Mode: "bv", Bounds: map[string]int{}, Ifaces: map[string]string{}, File: path, Props: map[string]bool{}, Lemma: true}
			cur.Key = "lemma:" + pkgPath + "." + name
			continue
		}
		if strings.HasPrefix(t, "contract ") {
			if err := flush(); err != nil {
				return nil, err
			}
			name := strings.TrimSpace(strings.TrimPrefix(t, "contract "))
			cur = &Contract{PkgPath: pkgPath, Func: name, Mode: "bv", Bounds: map[string]int{}, Ifaces: map[string]string{}, File: path, Props: map[string]bool{}}
			cur.Key = contractKey(pkgPath, name)
			continue
		}
		if t == "end" {
			if err := flush(); err != nil {
				return nil, err
			}
			if cur != nil {
				out = append(out, cur)
			}
			cur = nil
			continue
		}
		if cur == nil {
			continue
		}
		if m := clauseHead.FindStringSubmatch(t); m != nil {
			if err := flush(); err != nil {
				return nil, err
			}
			pend = &pending{head: m[1], rest: m[2], line: ln + 1}
		} else if pend != nil {
			pend.rest += " " + t
		} else {
			return nil, fmt.Errorf("%s:%d: unexpected contract line %q", path, ln+1, t)
		}
	}
	if cur != nil {
		return nil, fmt.Errorf("%s: contract %s not closed with end", path, cur.Func)
	}
	return out, nil
}

func contractKey(pkgPath, name string) string {
	name = strings.TrimSpace(name)
	if strings.HasPrefix(name, "(*") {
		return "(*" + pkgPath + "." + name[2:]
	}
	if strings.HasPrefix(name, "(") {
		return "(" + pkgPath + "." + name[1:]
	}
	return pkgPath + "." + name
}

func parseExpr(text, where string) (ast.Expr, error) {
	// `==>` and `<==>` sugar are not Go; users write implies()/iff().
	x, err := parser.ParseExpr(text)
	if err != nil {
		return nil, fmt.Errorf("%s: cannot parse %q: %v", where, text, err)
	}
	return x, nil
}

func splitTags(rest string) (props []string, label string, body string) {
	body = rest
	if m := tagRe.FindStringSubmatch(rest); m != nil {
		body = m[2]
		tag := m[1]
		// forms: C01:label   C03,C05:label
		parts := strings.SplitN(tag, ":", 2)
		for _, p := range strings.Split(parts[0], ",") {
			p = strings.TrimSpace(p)
			if p != "" {
				props = append(props, p)
			}
		}
		if len(parts) == 2 {
			label = strings.TrimSpace(parts[1])
		}
	}
	return
}

func (c *Contract) addClause(head, rest, where string) error {
	switch head {
	case "mode":
		for _, w := range strings.Fields(rest) {
			switch w {
			case "int", "bv":
				c.Mode = w
			case "exact":
				c.Exact = true
			default:
				return fmt.Errorf("%s: unknown mode word %q", where, w)
			}
		}
	case "ghost":
		f := strings.Fields(rest)
		if len(f) != 2 {
			return fmt.Errorf("%s: ghost wants `name type`", where)
		}
		c.Ghosts = append(c.Ghosts, Ghost{f[0], f[1]})
	case "abstract":
		c.Abstract = true
	case "keys":
		c.KeyType = strings.TrimSpace(rest)
	case "check":
		props, label, body := splitTags(rest)
		cl := &Clause{Props: props, Label: label, Text: strings.TrimSpace(body)}
		if cl.Label == "" {
			cl.Label = cl.Text
		}
		for _, p := range props {
			c.Props[p] = true
		}
		c.Checks = append(c.Checks, cl)
	case "decreases":
		x, err := parseExpr(strings.TrimSpace(rest), where)
		if err != nil {
			return err
		}
		c.Decreases = &Clause{Text: strings.TrimSpace(rest), Expr: x, Label: "recursion measure"}
	case "requires", "ensures", "panics-if":
		props, label, body := splitTags(rest)
		x, err := parseExpr(body, where)
		if err != nil {
			return err
		}
		cl := &Clause{Props: props, Label: label, Text: body, Expr: x}
		if cl.Label == "" {
			cl.Label = body
		}
		for _, p := range props {
			c.Props[p] = true
		}
		switch head {
		case "requires":
			c.Requires = append(c.Requires, cl)
		case "ensures":
			c.Ensures = append(c.Ensures, cl)
		default:
			c.PanicsIf = append(c.PanicsIf, cl)
		}
	case "modifies":
		c.HasMod = true
		rest = strings.TrimSpace(rest)
		if rest == "" || rest == "nothing" {
			return nil
		}
		x, err := parseExpr("f("+rest+")", where)
		if err != nil {
			return err
		}
		c.Modifies = append(c.Modifies, x.(*ast.CallExpr).Args...)
	case "loop":
		f := strings.Fields(rest)
		if len(f) < 3 {
			return fmt.Errorf("%s: loop wants `k invariant|decreases|unroll expr`", where)
		}
		k, err := strconv.Atoi(f[0])
		if err != nil {
			return fmt.Errorf("%s: loop ordinal: %v", where, err)
		}
		lc := &LoopClause{Loop: k, Kind: f[1]}
		body := strings.TrimSpace(strings.TrimPrefix(strings.TrimSpace(strings.TrimPrefix(strings.TrimSpace(rest), f[0])), f[1]))
		switch f[1] {
		case "unroll":
			n, err := strconv.Atoi(body)
			if err != nil {
				return fmt.Errorf("%s: unroll bound: %v", where, err)
			}
			lc.N = n
		case "invariant", "decreases":
			props, _, b2 := splitTags(body)
			x, err := parseExpr(b2, where)
			if err != nil {
				return err
			}
			lc.Expr, lc.Text, lc.Props = x, b2, props
		default:
			return fmt.Errorf("%s: unknown loop clause %q", where, f[1])
		}
		c.Loops = append(c.Loops, lc)
	case "bound":
		// bound len(x.y) N
		f := strings.Fields(rest)
		if len(f) != 2 || !strings.HasPrefix(f[0], "len(") {
			return fmt.Errorf("%s: bound wants `len(path) N`", where)
		}
		n, err := strconv.Atoi(f[1])
		if err != nil {
			return err
		}
		c.Bounds[strings.TrimSuffix(strings.TrimPrefix(f[0], "len("), ")")] = n
	case "iface":
		f := strings.Fields(rest)
		if len(f) != 2 {
			return fmt.Errorf("%s: iface wants `path type`", where)
		}
		c.Ifaces[f[0]] = f[1]
	case "maynil":
		c.MayNil = append(c.MayNil, strings.Fields(rest)...)
	case "inline":
		c.Inline = true
	case "extend":
		c.Extend = true
	case "unroll-in":
		f := strings.Fields(rest)
		if len(f) != 3 {
			return fmt.Errorf("%s: unroll-in wants `function-suffix loop-ordinal bound`", where)
		}
		ord, err1 := strconv.Atoi(f[1])
		n, err2 := strconv.Atoi(f[2])
		if err1 != nil || err2 != nil {
			return fmt.Errorf("%s: unroll-in wants numbers", where)
		}
		c.UnrollIn = append(c.UnrollIn, UnrollIn{Fn: f[0], Ord: ord, N: n})
	case "prefer-int":
		c.PreferInt = true
	case "expand":
		c.Expand = append(c.Expand, strings.Fields(rest)...)
	case "trusted":
		c.Trusted = true
	case "deterministic":
		c.Deterministic = true
	case "thorough-only":
		c.ThoroughOnly = true
	case "model":
		if c.Models == nil {
			c.Models = map[string]bool{}
		}
		for _, w := range strings.Fields(rest) {
			c.Models[w] = true
		}
	case "nosafety":
		c.NoSafety = true
	case "maxpaths":
		n, err := strconv.Atoi(strings.TrimSpace(rest))
		if err != nil {
			return err
		}
		c.MaxPaths = n
	case "alias":
		f := strings.Fields(rest)
		if len(f) != 2 {
			return fmt.Errorf("%s: alias wants two paths", where)
		}
		c.Alias = append(c.Alias, [2]string{f[0], f[1]})
	}
	return nil
}

var _ = token.NoPos
