package vc

import (
	"go/types"
	"math/big"

	"golang.org/x/tools/go/ssa"
)

// Model of bytes.Buffer as an append-only byte accumulator (the way the library uses it: NewBuffer / new, Write*,
// Bytes, Len, String). The contents live in the struct's `buf` field; the read offset stays 0 (reading methods are not
// modelled and fall back to the abstract call). binary.Write of a fixed-size integer or a byte slice into such a
// buffer appends its encoding in the given byte order.

func (e *Exec) bufferStruct(st *State, recv Val) (*PtrVal, *StructVal, bool) {
	p, ok := recv.(*PtrVal)
	if !ok || p.Obj == 0 {
		return nil, nil, false
	}
	v := e.load(st, p)
	if lz, ok := v.(*LazyVal); ok {
		v = e.symVal(st, lz.T, lz.Name, 0)
	}
	sv, ok := v.(*StructVal)
	if !ok || sv.T.NumFields() < 2 || sv.T.Field(0).Name() != "buf" || sv.T.Field(1).Name() != "off" {
		return nil, nil, false
	}
	off, ok := sv.Fields[1].(*Term)
	if !ok || !off.IsConst() || off.C.Sign() != 0 {
		return nil, nil, false
	}
	if _, ok := sv.Fields[0].(*SliceVal); !ok {
		return nil, nil, false
	}
	return p, sv, true
}

func (e *Exec) bufferAppend(st *State, fr *Frame, in ssa.Instruction, recv Val, more Val) (*State, bool) {
	p, sv, ok := e.bufferStruct(st, recv)
	if !ok {
		return nil, false
	}
	rs := e.appendImpl(st, fr, in, sv.Fields[0].(*SliceVal), more)
	if len(rs) != 1 {
		return nil, false
	}
	ns := &StructVal{T: sv.T, Named: sv.Named, Fields: append([]Val{}, sv.Fields...)}
	ns.Fields[0] = rs[0].v
	e.store(rs[0].st, p, ns)
	return rs[0].st, true
}

func lenOfVal(e *Exec, v Val) *Term {
	switch x := v.(type) {
	case *SliceVal:
		return x.Len
	case *StringVal:
		return x.Len
	}
	return e.idx(0)
}

func errNil(e *Exec) Val { return &IfaceVal{IsNil: e.C.True()} }

func intrBufferWrite(e *Exec, st *State, fr *Frame, args []Val, in ssa.Instruction, rt types.Type) []callRes {
	n := lenOfVal(e, args[1])
	if st2, ok := e.bufferAppend(st, fr, in, args[0], args[1]); ok {
		return []callRes{{st2, TupleVal{n, errNil(e)}}}
	}
	return nil
}

func intrBufferWriteByte(e *Exec, st *State, fr *Frame, args []Val, in ssa.Instruction, rt types.Type) []callRes {
	b := args[1].(*Term)
	one := e.constScalarSlice(st, types.Typ[types.Uint8], []int64{0}, "bufbyte")
	av := e.sliceBacking(st, one)
	nav := *av
	nav.C = &ArrLit{Vals: []*Term{b}, Rest: &ArrFill{Val: e.C.NumConst(big.NewInt(0), av.Elem)}}
	e.storeBacking(st, one, &nav)
	if st2, ok := e.bufferAppend(st, fr, in, args[0], one); ok {
		return []callRes{{st2, errNil(e)}}
	}
	return nil
}

func intrBufferBytes(e *Exec, st *State, fr *Frame, args []Val, in ssa.Instruction, rt types.Type) []callRes {
	if _, sv, ok := e.bufferStruct(st, args[0]); ok {
		return []callRes{{st, sv.Fields[0]}}
	}
	return nil
}

func intrBufferLen(e *Exec, st *State, fr *Frame, args []Val, in ssa.Instruction, rt types.Type) []callRes {
	if _, sv, ok := e.bufferStruct(st, args[0]); ok {
		return []callRes{{st, sv.Fields[0].(*SliceVal).Len}}
	}
	return nil
}

func intrNewBuffer(e *Exec, st *State, fr *Frame, args []Val, in ssa.Instruction, rt types.Type) []callRes {
	pt, ok := rt.(*types.Pointer)
	if !ok {
		return nil
	}
	sT, ok := pt.Elem().Underlying().(*types.Struct)
	if !ok {
		return nil
	}
	zv := e.zeroVal(st, pt.Elem())
	sv, ok := zv.(*StructVal)
	if !ok || sT.NumFields() < 2 || sT.Field(0).Name() != "buf" {
		return nil
	}
	if s, ok := args[0].(*SliceVal); ok {
		sv.Fields[0] = s
	}
	id := e.newObj(st, sv, &ObjMeta{T: pt.Elem(), Fresh: true, Name: "bytes.Buffer"})
	return []callRes{{st, &PtrVal{Obj: id, T: pt.Elem()}}}
}

// binary.Write(w, order, data) for w = *bytes.Buffer and data a fixed-size integer or []byte.
func intrBinaryWrite(e *Exec, st *State, fr *Frame, args []Val, in ssa.Instruction, rt types.Type) []callRes {
	w, ok := args[0].(*IfaceVal)
	ord, ok2 := args[1].(*IfaceVal)
	data, ok3 := args[2].(*IfaceVal)
	if !ok || !ok2 || !ok3 || w.Opaque || w.V == nil || data.Opaque || data.V == nil || ord.Dyn == nil {
		return nil
	}
	if _, _, isBuf := e.bufferStruct(st, w.V); !isBuf {
		return nil
	}
	bigEnd := false
	switch ord.Dyn.String() {
	case "encoding/binary.littleEndian":
	case "encoding/binary.bigEndian":
		bigEnd = true
	default:
		return nil
	}
	switch v := data.V.(type) {
	case *SliceVal:
		if !isScalarType(v.ElemT) || sizeOf(v.ElemT) != 1 {
			return nil
		}
		if st2, ok := e.bufferAppend(st, fr, in, w.V, v); ok {
			return []callRes{{st2, errNil(e)}}
		}
	case *Term:
		if e.IntMode || !v.S.IsBV() || v.S.W%8 != 0 || v.S.W > 64 {
			return nil
		}
		n := v.S.W / 8
		vals := make([]*Term, n)
		for i := 0; i < n; i++ {
			k := i
			if bigEnd {
				k = n - 1 - i
			}
			vals[i] = e.C.Extract(8*k+7, 8*k, v)
		}
		tmp := e.constScalarSlice(st, types.Typ[types.Uint8], make([]int64, n), "binwrite")
		av := e.sliceBacking(st, tmp)
		nav := *av
		nav.C = &ArrLit{Vals: vals, Rest: &ArrFill{Val: e.C.NumConst(bigZero(), av.Elem)}}
		e.storeBacking(st, tmp, &nav)
		if st2, ok := e.bufferAppend(st, fr, in, w.V, tmp); ok {
			return []callRes{{st2, errNil(e)}}
		}
	}
	return nil
}

func init() {
	for _, n := range []string{"(*bytes.Buffer).Write", "(*bytes.Buffer).WriteString", "(*bytes.Buffer).WriteByte", "(*bytes.Buffer).Bytes", "(*bytes.Buffer).Len", "bytes.NewBuffer", "encoding/binary.Write"} {
		declining[n] = true
	}
	intrinsics["(*bytes.Buffer).Write"] = intrBufferWrite
	intrinsics["(*bytes.Buffer).WriteString"] = intrBufferWrite
	intrinsics["(*bytes.Buffer).WriteByte"] = intrBufferWriteByte
	intrinsics["(*bytes.Buffer).Bytes"] = intrBufferBytes
	intrinsics["(*bytes.Buffer).Len"] = intrBufferLen
	intrinsics["bytes.NewBuffer"] = intrNewBuffer
	intrinsics["encoding/binary.Write"] = intrBinaryWrite
}

func bigZero() *big.Int { return big.NewInt(0) }
