package vc

import (
	"fmt"
	"go/ast"
	"go/constant"
	"go/token"
	"go/types"
	"math/big"
	"os"
	"runtime/debug"
	"strconv"
	"strings"
)

// SeqVal: a finite sequence of scalars (spec-level).
type SeqVal struct {
	Len  *Term
	At   func(i *Term) *Term
	Elem Sort
	ET   types.Type
}

// sv: spec value with optional static type; U != nil for untyped integer constants.
type sv struct {
	V Val
	T types.Type
	U *big.Int
}

type SpecEnv struct {
	e     *Exec
	st    *State
	old   *State
	vars  map[string]sv
	pkg   *types.Package
	where string
	// entry: inside a loop clause, the entry values of the parameters (a parameter that the body reassigns is a
	// loop-carried variable there; old(p) means the value the function was called with)
	entry map[string]sv
}

func (env *SpecEnv) fail(format string, args ...interface{}) {
	if os.Getenv("GOVC_DEBUG") != "" {
		debug.PrintStack()
	}
	panic(Bail{Reason: "contract " + env.where + ": " + fmt.Sprintf(format, args...)})
}

func (env *SpecEnv) withState(st *State) *SpecEnv {
	n := *env
	n.st = st
	return &n
}

func (env *SpecEnv) bind(name string, v sv) *SpecEnv {
	n := *env
	n.vars = map[string]sv{}
	for k, x := range env.vars {
		n.vars[k] = x
	}
	n.vars[name] = v
	return &n
}

// Bool evaluates a boolean spec expression.
func (env *SpecEnv) Bool(x ast.Expr) *Term {
	v := env.eval(x)
	t, ok := v.V.(*Term)
	if !ok || !t.S.IsBool() {
		env.fail("expected boolean expression, got %T in %s", v.V, exprText(x))
	}
	return t
}

func exprText(x ast.Expr) string {
	return types.ExprString(x)
}

var basicByName = map[string]types.Type{
	"uint8": types.Typ[types.Uint8], "byte": types.Typ[types.Uint8], "uint16": types.Typ[types.Uint16], "uint32": types.Typ[types.Uint32],
	"uint64": types.Typ[types.Uint64], "uint": types.Typ[types.Uint], "int8": types.Typ[types.Int8], "int16": types.Typ[types.Int16],
	"int32": types.Typ[types.Int32], "int64": types.Typ[types.Int64], "int": types.Typ[types.Int], "rune": types.Typ[types.Int32],
}

func (env *SpecEnv) num(v *big.Int, t types.Type) sv {
	e := env.e
	if t == nil {
		return sv{U: v}
	}
	return sv{V: e.C.NumConst(v, e.sortOf(t)), T: t}
}

// term forces a scalar term out of v, giving untyped constants the sort `like`.
func (env *SpecEnv) term(v sv, like sv) (*Term, types.Type) {
	e := env.e
	if v.U != nil {
		if like.U != nil || like.V == nil {
			return e.C.NumConst(v.U, e.idxSort()), types.Typ[types.Int]
		}
		lt, ok := like.V.(*Term)
		if !ok {
			env.fail("cannot type constant %s against %T", v.U, like.V)
		}
		return e.C.NumConst(v.U, lt.S), like.T
	}
	t, ok := v.V.(*Term)
	if !ok {
		env.fail("expected scalar, got %T", v.V)
	}
	return t, v.T
}

func (env *SpecEnv) pair(a, b sv) (*Term, *Term, types.Type) {
	x, xt := env.term(a, b)
	y, yt := env.term(b, a)
	if x.S != y.S {
		env.fail("operands have different sorts (%s vs %s): use explicit conversions", x.S.SMT(), y.S.SMT())
	}
	t := xt
	if a.U != nil {
		t = yt
	}
	return x, y, t
}

func (env *SpecEnv) eval(x ast.Expr) sv {
	e := env.e
	c := e.C
	switch n := x.(type) {
	case *ast.ParenExpr:
		return env.eval(n.X)
	case *ast.BasicLit:
		switch n.Kind {
		case token.INT:
			v, ok := new(big.Int).SetString(n.Value, 0)
			if !ok {
				env.fail("bad int literal %s", n.Value)
			}
			return sv{U: v}
		case token.CHAR:
			r, _, _, err := strconv.UnquoteChar(n.Value[1:len(n.Value)-1], '\'')
			if err != nil {
				env.fail("bad char literal %s", n.Value)
			}
			return sv{U: big.NewInt(int64(r))}
		case token.STRING:
			s, err := strconv.Unquote(n.Value)
			if err != nil {
				env.fail("bad string literal")
			}
			return sv{V: e.strConst(s), T: types.Typ[types.String]}
		}
	case *ast.Ident:
		switch n.Name {
		case "true":
			return sv{V: c.True(), T: types.Typ[types.Bool]}
		case "false":
			return sv{V: c.False(), T: types.Typ[types.Bool]}
		case "nil":
			return sv{V: nilMarker{}}
		}
		if v, ok := env.vars[n.Name]; ok {
			return v
		}
		if env.pkg != nil {
			if o := env.pkg.Scope().Lookup(n.Name); o != nil {
				if k, ok := o.(*types.Const); ok {
					return env.constObj(k)
				}
			}
		}
		env.fail("unknown identifier %q", n.Name)
	case *ast.UnaryExpr:
		v := env.eval(n.X)
		switch n.Op {
		case token.NOT:
			return sv{V: c.Not(v.V.(*Term)), T: types.Typ[types.Bool]}
		case token.SUB:
			if v.U != nil {
				return sv{U: new(big.Int).Neg(v.U)}
			}
			return sv{V: c.Neg(v.V.(*Term)), T: v.T}
		case token.XOR:
			if v.U != nil {
				return sv{U: new(big.Int).Not(v.U)}
			}
			if e.IntMode {
				env.fail("^ in int mode")
			}
			return sv{V: c.BvNot(v.V.(*Term)), T: v.T}
		}
	case *ast.StarExpr:
		v := env.eval(n.X)
		p, ok := v.V.(*PtrVal)
		if !ok {
			env.fail("* of non-pointer")
		}
		return sv{V: e.load(env.st, p), T: p.T}
	case *ast.BinaryExpr:
		return env.binary(n)
	case *ast.SelectorExpr:
		// package-qualified constant?
		if id, ok := n.X.(*ast.Ident); ok {
			if _, isVar := env.vars[id.Name]; !isVar && env.pkg != nil {
				for _, imp := range env.pkg.Imports() {
					if imp.Name() == id.Name {
						if o := imp.Scope().Lookup(n.Sel.Name); o != nil {
							if k, ok := o.(*types.Const); ok {
								return env.constObj(k)
							}
						}
					}
				}
			}
		}
		v := env.eval(n.X)
		return env.field(v, n.Sel.Name)
	case *ast.IndexExpr:
		xv := env.eval(n.X)
		if sl, ok := xv.V.(*SliceVal); ok && sl.Obj != 0 && !isScalarType(sl.ElemT) {
			// element of a slice of non-scalars (strings, structs): load through the heap path
			i, _ := env.term(env.eval(n.Index), sv{V: sl.Len, T: types.Typ[types.Int]})
			p := &PtrVal{Obj: sl.Obj, Path: appendPath(sl.Path, PathElem{Field: -1, Idx: e.C.Add(sl.Off, i)}), T: sl.ElemT}
			return sv{V: e.load(env.st, p), T: sl.ElemT}
		}
		s := env.seq(xv)
		i, _ := env.term(env.eval(n.Index), sv{V: s.Len, T: types.Typ[types.Int]})
		return sv{V: s.At(i), T: s.ET}
	case *ast.SliceExpr:
		s := env.seq(env.eval(n.X))
		lo := e.idx(0)
		hi := s.Len
		if n.Low != nil {
			lo, _ = env.term(env.eval(n.Low), sv{V: s.Len})
		}
		if n.High != nil {
			hi, _ = env.term(env.eval(n.High), sv{V: s.Len})
		}
		return sv{V: subSeq(e, s, lo, hi)}
	case *ast.CallExpr:
		return env.call(n)
	}
	env.fail("unsupported expression %s (%T)", exprText(x), x)
	return sv{}
}

type nilMarker struct{}

func (env *SpecEnv) constObj(k *types.Const) sv {
	e := env.e
	t := k.Type()
	if b, ok := t.Underlying().(*types.Basic); ok {
		if b.Info()&types.IsInteger != 0 {
			bi, ok := constant.Val(constant.ToInt(k.Val())).(*big.Int)
			if !ok {
				i64, _ := constant.Int64Val(constant.ToInt(k.Val()))
				bi = big.NewInt(i64)
			}
			if b.Info()&types.IsUntyped != 0 {
				return sv{U: bi}
			}
			return sv{V: e.C.NumConst(bi, e.sortOf(t)), T: t}
		}
		if b.Info()&types.IsString != 0 {
			return sv{V: e.strConst(constant.StringVal(k.Val())), T: t}
		}
		if b.Info()&types.IsBoolean != 0 {
			return sv{V: e.C.Bool(constant.BoolVal(k.Val())), T: t}
		}
	}
	env.fail("unsupported constant %s", k.Name())
	return sv{}
}

func (env *SpecEnv) field(v sv, name string) sv {
	e := env.e
	val := v.V
	if lz, ok := val.(*LazyVal); ok {
		val = e.symVal(env.st, lz.T, lz.Name, 0)
	}
	if p, ok := val.(*PtrVal); ok {
		if p.Obj == 0 {
			env.fail("field %s of nil pointer", name)
		}
		val = e.load(env.st, p)
	}
	if iv, ok := val.(*IfaceVal); ok && iv.Dyn != nil {
		return env.field(sv{V: iv.V, T: iv.Dyn}, name)
	}
	if tv, ok := val.(*TimeVal); ok {
		switch name {
		case "sec":
			return sv{V: tv.Sec, T: types.Typ[types.Int64]}
		case "nsec":
			return sv{V: tv.Nsec, T: types.Typ[types.Int64]}
		}
	}
	s, ok := val.(*StructVal)
	if !ok {
		env.fail("field %s of %T", name, val)
	}
	for i := 0; i < s.T.NumFields(); i++ {
		f := s.T.Field(i)
		if f.Name() == name {
			fv := s.Fields[i]
			if lz, ok := fv.(*LazyVal); ok {
				fv = e.symVal(env.st, lz.T, lz.Name, 0)
			}
			return sv{V: fv, T: f.Type()}
		}
	}
	// promoted through embedded fields
	for i := 0; i < s.T.NumFields(); i++ {
		f := s.T.Field(i)
		if f.Embedded() {
			fv := s.Fields[i]
			var r sv
			ok := func() (ok bool) {
				defer func() {
					if recover() != nil {
						ok = false
					}
				}()
				r = env.field(sv{V: fv, T: f.Type()}, name)
				return true
			}()
			if ok {
				return r
			}
		}
	}
	env.fail("no field %s", name)
	return sv{}
}

// seq converts a value to a spec sequence.
func (env *SpecEnv) seq(v sv) *SeqVal {
	e := env.e
	st := env.st
	val := v.V
	if lz, ok := val.(*LazyVal); ok {
		val = e.symVal(st, lz.T, lz.Name, 0)
	}
	switch x := val.(type) {
	case *SeqVal:
		return x
	case *StringVal:
		return &SeqVal{Len: x.Len, At: func(i *Term) *Term { return e.sel(x.C, e.C.Add(x.Off, i)) }, Elem: e.elemSort(types.Typ[types.Uint8]), ET: types.Typ[types.Uint8]}
	case *SliceVal:
		if x.Obj == 0 {
			es := e.elemSort(x.ElemT)
			return &SeqVal{Len: e.idx(0), At: func(i *Term) *Term { return zeroOf(e.C, es) }, Elem: es, ET: x.ElemT}
		}
		av := e.sliceBacking(st, x)
		if !av.Scalar {
			env.fail("sequence view of non-scalar slice")
		}
		cont := av.C
		return &SeqVal{Len: x.Len, At: func(i *Term) *Term { return e.sel(cont, e.C.Add(x.Off, i)) }, Elem: av.Elem, ET: av.ElemT}
	case *ArrayVal:
		if !x.Scalar {
			env.fail("sequence view of non-scalar array")
		}
		return &SeqVal{Len: x.Len, At: func(i *Term) *Term { return e.sel(x.C, i) }, Elem: x.Elem, ET: x.ElemT}
	case *PtrVal:
		return env.seq(sv{V: e.load(st, x)})
	}
	env.fail("expected sequence, got %T", val)
	return nil
}

func subSeq(e *Exec, s *SeqVal, lo, hi *Term) *SeqVal {
	return &SeqVal{Len: e.C.Sub(hi, lo), At: func(i *Term) *Term { return s.At(e.C.Add(lo, i)) }, Elem: s.Elem, ET: s.ET}
}

func catSeq(e *Exec, a, b *SeqVal) *SeqVal {
	if a.Len.IsConst() && a.Len.C.Sign() == 0 {
		return b
	}
	return &SeqVal{Len: e.C.Add(a.Len, b.Len), At: func(i *Term) *Term {
		return e.C.Ite(e.ltIdx(i, a.Len), a.At(i), b.At(e.C.Sub(i, a.Len)))
	}, Elem: a.Elem, ET: a.ET}
}

func litSeq(e *Exec, vals []*Term) *SeqVal {
	es := e.elemSort(types.Typ[types.Uint8])
	return &SeqVal{Len: e.idx(int64(len(vals))), At: func(i *Term) *Term {
		if i.IsConst() && i.C.IsInt64() && i.C.Int64() >= 0 && int(i.C.Int64()) < len(vals) {
			return vals[i.C.Int64()]
		}
		r := zeroOf(e.C, es)
		for k := len(vals) - 1; k >= 0; k-- {
			r = e.C.Ite(e.C.Eq(i, e.idx(int64(k))), vals[k], r)
		}
		return r
	}, Elem: es, ET: types.Typ[types.Uint8]}
}

// seqEq: sequences equal (same length, pointwise).
func (env *SpecEnv) seqEq(a, b *SeqVal) *Term {
	e := env.e
	c := e.C
	if a.Elem != b.Elem {
		env.fail("eq of sequences with different element sorts")
	}
	le := c.Eq(a.Len, b.Len)
	if le.IsFalse() {
		return le
	}
	var n int64 = -1
	if a.Len.IsConst() {
		n = a.Len.C.Int64()
	} else if b.Len.IsConst() {
		n = b.Len.C.Int64()
	}
	if n >= 0 && n <= 512 {
		r := le
		for i := int64(0); i < n; i++ {
			r = c.And(r, c.Eq(a.At(e.idx(i)), b.At(e.idx(i))))
		}
		return r
	}
	k := c.Var(c.FreshName("k"), e.idxSort())
	return c.And(le, c.Forall([]*Term{k}, c.Implies(e.inRange(k, a.Len), c.Eq(a.At(k), b.At(k)))))
}

// byteOf extracts byte number k (0 = least significant) of a scalar.
func (env *SpecEnv) byteOf(t *Term, k int) *Term {
	e := env.e
	if e.IntMode {
		return e.C.IMod(e.C.IDiv(t, e.C.IntConst(pow2(uint(8*k)))), e.C.Inti(256))
	}
	return e.C.Extract(8*k+7, 8*k, t)
}

func (env *SpecEnv) binary(n *ast.BinaryExpr) sv {
	e := env.e
	c := e.C
	switch n.Op {
	case token.LAND:
		a := env.Bool(n.X)
		if a.IsFalse() {
			return sv{V: a, T: types.Typ[types.Bool]}
		}
		return sv{V: c.And(a, env.Bool(n.Y)), T: types.Typ[types.Bool]}
	case token.LOR:
		a := env.Bool(n.X)
		if a.IsTrue() {
			return sv{V: a, T: types.Typ[types.Bool]}
		}
		return sv{V: c.Or(a, env.Bool(n.Y)), T: types.Typ[types.Bool]}
	}
	a := env.eval(n.X)
	b := env.eval(n.Y)
	boolT := types.Typ[types.Bool]
	if n.Op == token.EQL || n.Op == token.NEQ {
		var r *Term
		_, an := a.V.(nilMarker)
		_, bn := b.V.(nilMarker)
		switch {
		case an && bn:
			r = c.True()
		case an:
			r = env.isNil(b)
		case bn:
			r = env.isNil(a)
		default:
			if a.U != nil && b.U != nil {
				r = c.Bool(a.U.Cmp(b.U) == 0)
			} else if isSeqLike(a.V) || isSeqLike(b.V) {
				r = env.seqEq(env.seq(a), env.seq(b))
			} else if _, ok := a.V.(*Term); ok || a.U != nil {
				x, y, _ := env.pair(a, b)
				r = c.Eq(x, y)
			} else {
				r = e.equal(env.st, a.V, b.V, a.T)
			}
		}
		if n.Op == token.NEQ {
			r = c.Not(r)
		}
		return sv{V: r, T: boolT}
	}
	if a.U != nil && b.U != nil {
		r := new(big.Int)
		switch n.Op {
		case token.ADD:
			r.Add(a.U, b.U)
		case token.SUB:
			r.Sub(a.U, b.U)
		case token.MUL:
			r.Mul(a.U, b.U)
		case token.QUO:
			r.Quo(a.U, b.U)
		case token.REM:
			r.Rem(a.U, b.U)
		case token.SHL:
			r.Lsh(a.U, uint(b.U.Uint64()))
		case token.SHR:
			r.Rsh(a.U, uint(b.U.Uint64()))
		case token.AND:
			r.And(a.U, b.U)
		case token.OR:
			r.Or(a.U, b.U)
		case token.XOR:
			r.Xor(a.U, b.U)
		case token.LSS:
			return sv{V: c.Bool(a.U.Cmp(b.U) < 0), T: boolT}
		case token.LEQ:
			return sv{V: c.Bool(a.U.Cmp(b.U) <= 0), T: boolT}
		case token.GTR:
			return sv{V: c.Bool(a.U.Cmp(b.U) > 0), T: boolT}
		case token.GEQ:
			return sv{V: c.Bool(a.U.Cmp(b.U) >= 0), T: boolT}
		default:
			env.fail("constant op %s", n.Op)
		}
		return sv{U: r}
	}
	// shifts: count may have any type
	if n.Op == token.SHL || n.Op == token.SHR {
		x, xt := env.term(a, sv{V: e.idx(0), T: types.Typ[types.Int]})
		var cnt *Term
		if b.U != nil {
			cnt = c.NumConst(b.U, x.S)
		} else {
			y := b.V.(*Term)
			if e.IntMode || y.S == x.S {
				cnt = y
			} else if y.S.W < x.S.W {
				cnt = c.ZExt(y, x.S.W)
			} else {
				cnt = c.Ite(c.ULe(c.BVu(uint64(x.S.W), y.S.W), y), c.BVu(uint64(x.S.W), x.S.W), c.Extract(x.S.W-1, 0, y))
			}
		}
		if e.IntMode {
			if !cnt.IsConst() {
				env.fail("symbolic shift in int mode")
			}
			k := uint(cnt.C.Uint64())
			if n.Op == token.SHL {
				return sv{V: c.Mul(x, c.IntConst(pow2(k))), T: xt}
			}
			return sv{V: c.IDiv(x, c.IntConst(pow2(k))), T: xt}
		}
		if n.Op == token.SHL {
			return sv{V: c.Shl(x, cnt), T: xt}
		}
		if xt != nil && isSigned(xt) {
			return sv{V: c.AShr(x, cnt), T: xt}
		}
		return sv{V: c.LShr(x, cnt), T: xt}
	}
	x, y, t := env.pair(a, b)
	signed := t != nil && isSigned(t)
	if t == nil {
		signed = true
	}
	switch n.Op {
	case token.LSS:
		return sv{V: c.Lt(x, y, signed), T: boolT}
	case token.LEQ:
		return sv{V: c.Le(x, y, signed), T: boolT}
	case token.GTR:
		return sv{V: c.Lt(y, x, signed), T: boolT}
	case token.GEQ:
		return sv{V: c.Le(y, x, signed), T: boolT}
	case token.ADD:
		return sv{V: c.Add(x, y), T: t}
	case token.SUB:
		return sv{V: c.Sub(x, y), T: t}
	case token.MUL:
		return sv{V: c.Mul(x, y), T: t}
	case token.QUO:
		if e.IntMode {
			// spec division: floor division for positive divisors (mathematical), as in SMT-LIB
			return sv{V: c.IDiv(x, y), T: t}
		}
		if signed {
			return sv{V: c.SDiv(x, y), T: t}
		}
		return sv{V: c.UDiv(x, y), T: t}
	case token.REM:
		if e.IntMode {
			return sv{V: c.IMod(x, y), T: t}
		}
		if signed {
			return sv{V: c.SRem(x, y), T: t}
		}
		return sv{V: c.URem(x, y), T: t}
	case token.AND:
		if e.IntMode {
			if k, ok := lowMask(y); ok {
				return sv{V: c.IMod(x, c.IntConst(pow2(k))), T: t}
			}
			if r, ok := e.andConstInt(x, y); ok {
				return sv{V: r, T: t}
			}
			if r, ok := e.andConstInt(y, x); ok {
				return sv{V: r, T: t}
			}
			env.fail("& in int mode needs a low mask or a constant with few bits")
		}
		return sv{V: c.BvAnd(x, y), T: t}
	case token.OR:
		if e.IntMode {
			if r, ok := e.orInt(x, y); ok {
				return sv{V: r, T: t}
			}
			env.fail("| in int mode (operands not provably bit-disjoint)")
		}
		return sv{V: c.BvOr(x, y), T: t}
	case token.XOR:
		if e.IntMode {
			env.fail("^ in int mode")
		}
		return sv{V: c.BvXor(x, y), T: t}
	case token.AND_NOT:
		return sv{V: c.BvAnd(x, c.BvNot(y)), T: t}
	}
	env.fail("operator %s", n.Op)
	return sv{}
}

func isSeqLike(v Val) bool {
	switch v.(type) {
	case *SeqVal, *StringVal, *SliceVal, *ArrayVal:
		return true
	}
	return false
}

func (env *SpecEnv) isNil(v sv) *Term {
	c := env.e.C
	val := v.V
	if lz, ok := val.(*LazyVal); ok {
		val = env.e.symVal(env.st, lz.T, lz.Name, 0)
	}
	switch x := val.(type) {
	case *IfaceVal:
		return x.IsNil
	case *SliceVal:
		return x.Nil
	case *PtrVal:
		return c.Bool(x.Obj == 0)
	case *MapVal:
		return c.Bool(x.Obj == 0)
	}
	env.fail("nil comparison of %T", val)
	return nil
}

func (env *SpecEnv) call(n *ast.CallExpr) sv {
	e := env.e
	c := e.C
	boolT := types.Typ[types.Bool]
	name := ""
	switch f := n.Fun.(type) {
	case *ast.Ident:
		name = f.Name
	case *ast.SelectorExpr:
		// method-like spec accessors are not supported
		env.fail("calls through selectors are not supported in contracts: %s", exprText(n))
	default:
		env.fail("unsupported call %s", exprText(n))
	}
	arg := func(i int) sv {
		if i >= len(n.Args) {
			env.fail("%s: missing argument %d", name, i)
		}
		return env.eval(n.Args[i])
	}
	if t, ok := basicByName[name]; ok {
		v := arg(0)
		if v.U != nil {
			return sv{V: c.NumConst(v.U, e.sortOf(t)), T: t}
		}
		from := v.T
		if from == nil {
			from = types.Typ[types.Int]
		}
		return sv{V: e.convert(env.st, nil, nil, v.V, from, t), T: t}
	}
	switch name {
	case "len":
		v := arg(0)
		if m, ok := v.V.(*MapVal); ok {
			return sv{V: e.lenOf(env.st, m), T: types.Typ[types.Int]}
		}
		if s, ok := v.V.(*SliceVal); ok {
			return sv{V: s.Len, T: types.Typ[types.Int]}
		}
		return sv{V: env.seq(v).Len, T: types.Typ[types.Int]}
	case "cap":
		v := arg(0)
		if s, ok := v.V.(*SliceVal); ok {
			return sv{V: s.Cap, T: types.Typ[types.Int]}
		}
		env.fail("cap of %T", v.V)
	case "old":
		if env.old == nil {
			env.fail("old() outside a postcondition")
		}
		oe := env.withState(env.old)
		if len(env.entry) > 0 {
			nv := map[string]sv{}
			for k, x := range env.vars {
				nv[k] = x
			}
			for k, x := range env.entry {
				nv[k] = x
			}
			oe.vars = nv
		}
		r := oe.eval(n.Args[0])
		switch r.V.(type) {
		case *SliceVal, *ArrayVal:
			// snapshot the contents in the old state (the backing object may not exist in the new one)
			return sv{V: oe.seq(r), T: r.T}
		}
		return r
	case "implies":
		a := env.Bool(n.Args[0])
		if !a.IsConst() && env.st != nil {
			// literals of the path condition decide many antecedents (e.g. `err == nil` on an error path)
			if m := constFacts(env.st.PC); len(m) > 0 {
				if a2 := c.Subst(a, m); a2.IsConst() {
					a = a2
				}
			}
		}
		if a.IsFalse() {
			return sv{V: c.True(), T: boolT}
		}
		return sv{V: c.Implies(a, env.Bool(n.Args[1])), T: boolT}
	case "iff":
		return sv{V: c.Eq(env.Bool(n.Args[0]), env.Bool(n.Args[1])), T: boolT}
	case "ite":
		cond := env.Bool(n.Args[0])
		a, b := arg(1), arg(2)
		x, y, t := env.pair(a, b)
		return sv{V: c.Ite(cond, x, y), T: t}
	case "forall", "exists":
		id, ok := n.Args[0].(*ast.Ident)
		if !ok || len(n.Args) != 4 {
			env.fail("%s(i, lo, hi, body)", name)
		}
		lo, _ := env.term(arg(1), sv{V: e.idx(0), T: types.Typ[types.Int]})
		hi, _ := env.term(arg(2), sv{V: e.idx(0), T: types.Typ[types.Int]})
		if lo.IsConst() && hi.IsConst() && new(big.Int).Sub(hi.C, lo.C).Cmp(big.NewInt(300)) <= 0 {
			r := c.Bool(name == "forall")
			for i := new(big.Int).Set(lo.SInt()); i.Cmp(hi.SInt()) < 0; i.Add(i, big.NewInt(1)) {
				b := env.bind(id.Name, sv{V: c.NumConst(i, e.idxSort()), T: types.Typ[types.Int]}).Bool(n.Args[3])
				if name == "forall" {
					r = c.And(r, b)
				} else {
					r = c.Or(r, b)
				}
			}
			return sv{V: r, T: boolT}
		}
		k := c.Var(c.FreshName(id.Name), e.idxSort())
		body := env.bind(id.Name, sv{V: k, T: types.Typ[types.Int]}).Bool(n.Args[3])
		rng := c.And(c.Le(lo, k, true), c.Lt(k, hi, true))
		if name == "forall" {
			return sv{V: c.Forall([]*Term{k}, c.Implies(rng, body)), T: boolT}
		}
		return sv{V: c.Not(c.Forall([]*Term{k}, c.Not(c.And(rng, body)))), T: boolT}
	case "eq":
		return sv{V: env.seqEq(env.seq(arg(0)), env.seq(arg(1))), T: boolT}
	case "cat":
		s := env.seq(arg(0))
		for i := 1; i < len(n.Args); i++ {
			s = catSeq(e, s, env.seq(arg(i)))
		}
		return sv{V: s}
	case "sub":
		s := env.seq(arg(0))
		lo, _ := env.term(arg(1), sv{V: s.Len})
		hi, _ := env.term(arg(2), sv{V: s.Len})
		return sv{V: subSeq(e, s, lo, hi)}
	case "bytes":
		var vals []*Term
		bt := sv{V: zeroOf(c, e.elemSort(types.Typ[types.Uint8])), T: types.Typ[types.Uint8]}
		for i := range n.Args {
			t, _ := env.term(arg(i), bt)
			vals = append(vals, t)
		}
		return sv{V: litSeq(e, vals)}
	case "rep":
		v, _ := env.term(arg(0), sv{V: zeroOf(c, e.elemSort(types.Typ[types.Uint8])), T: types.Typ[types.Uint8]})
		nn, _ := env.term(arg(1), sv{V: e.idx(0), T: types.Typ[types.Int]})
		return sv{V: &SeqVal{Len: nn, At: func(*Term) *Term { return v }, Elem: v.S, ET: types.Typ[types.Uint8]}}
	case "le16", "le32", "le64", "be16", "be32", "be64":
		nb, _ := strconv.Atoi(name[2:])
		nb /= 8
		v := arg(0)
		var t *Term
		if v.U != nil {
			if e.IntMode {
				t = c.IntConst(v.U)
			} else {
				t = c.BVConst(v.U, nb*8)
			}
		} else {
			t = v.V.(*Term)
		}
		if !e.IntMode && t.S.W != nb*8 {
			env.fail("%s of %d-bit value", name, t.S.W)
		}
		vals := make([]*Term, nb)
		for k := 0; k < nb; k++ {
			if name[0] == 'l' {
				vals[k] = env.byteOf(t, k)
			} else {
				vals[k] = env.byteOf(t, nb-1-k)
			}
		}
		return sv{V: litSeq(e, vals)}
	case "u16le", "u32le", "u64le", "u16be", "u32be", "u64be":
		nb, _ := strconv.Atoi(name[1:3])
		nb /= 8
		s := env.seq(arg(0))
		off, _ := env.term(arg(1), sv{V: s.Len})
		var r *Term
		var rt types.Type
		switch nb {
		case 2:
			rt = types.Typ[types.Uint16]
		case 4:
			rt = types.Typ[types.Uint32]
		default:
			rt = types.Typ[types.Uint64]
		}
		for k := 0; k < nb; k++ {
			var b *Term
			if strings.HasSuffix(name, "le") {
				b = s.At(c.Add(off, e.idx(int64(nb-1-k))))
			} else {
				b = s.At(c.Add(off, e.idx(int64(k))))
			}
			if e.IntMode {
				if r == nil {
					r = b
				} else {
					r = c.Add(c.Mul(r, c.Inti(256)), b)
				}
			} else {
				if r == nil {
					r = b
				} else {
					r = c.Concat(r, b)
				}
			}
		}
		return sv{V: r, T: rt}
	case "fresh":
		v := arg(0)
		switch x := v.V.(type) {
		case *SliceVal:
			if x.Obj == 0 {
				return sv{V: c.True(), T: boolT}
			}
			return sv{V: c.Bool(e.meta(x.Obj).Fresh), T: boolT}
		case *PtrVal:
			return sv{V: c.Bool(x.Obj != 0 && e.meta(x.Obj).Fresh), T: boolT}
		}
		env.fail("fresh of %T", v.V)
	case "sameobj":
		a, b := arg(0), arg(1)
		return sv{V: c.Bool(objOf(a.V) == objOf(b.V) && objOf(a.V) != 0), T: boolT}
	case "unchanged":
		now := arg(0)
		if env.old == nil {
			env.fail("unchanged() outside postcondition")
		}
		before := env.withState(env.old).eval(n.Args[0])
		return sv{V: env.deepEq(now.V, before.V, env.st, env.old, 0), T: boolT}
	case "typeis":
		v := arg(0)
		iv, ok := v.V.(*IfaceVal)
		if !ok {
			env.fail("typeis of non-interface")
		}
		want := exprText(n.Args[1])
		if iv.Dyn == nil || iv.Opaque {
			// dynamic type not known to the engine: an uninterpreted predicate of the value's identity
			if iv.IsNil.IsTrue() {
				return sv{V: c.False(), T: boolT}
			}
			id := iv.ID
			if id == nil {
				id = c.Fresh("ifaceid", BV(64))
			}
			return sv{V: c.And(c.Not(iv.IsNil), c.App("dyntype_is_"+sanitize(want), BoolS, id)), T: boolT}
		}
		got := shortType(iv.Dyn)
		return sv{V: c.And(c.Not(iv.IsNil), c.Bool(got == want)), T: boolT}
	case "hastoken", "tokens_distinct", "tokens_in", "tokencount":
		// token predicates on a concrete string (evaluated per path, after the code built the string)
		v := arg(0)
		sv0, ok := v.V.(*StringVal)
		if !ok {
			env.fail("%s of %T", name, v.V)
		}
		str, isC := concreteString(sv0)
		if !isC && sv0.Tag != nil && len(sv0.Tag.Segs) == 1 && sv0.Tag.Segs[0].Kind == "condjoin" {
			return env.condTokens(name, n, sv0.Tag.Segs[0])
		}
		if !isC {
			env.fail("%s: the string is not concrete on this path (symbolic list / abstracted call)", name)
		}
		sepArg := 1
		if name == "hastoken" {
			sepArg = 2
		}
		sepV, ok := arg(sepArg).V.(*StringVal)
		if !ok {
			env.fail("%s: separator must be a string literal", name)
		}
		sep, _ := concreteString(sepV)
		var toks []string
		if str != "" {
			toks = strings.Split(str, sep)
		}
		switch name {
		case "hastoken":
			wantV, _ := arg(1).V.(*StringVal)
			want, _ := concreteString(wantV)
			found := false
			for _, t := range toks {
				if t == want {
					found = true
				}
			}
			return sv{V: c.Bool(found), T: boolT}
		case "tokens_distinct":
			seen := map[string]bool{}
			okd := true
			for _, t := range toks {
				if seen[t] {
					okd = false
				}
				seen[t] = true
			}
			return sv{V: c.Bool(okd), T: boolT}
		case "tokens_in":
			setV, _ := arg(2).V.(*StringVal)
			set, _ := concreteString(setV)
			allowed := map[string]bool{}
			for _, a := range strings.Split(set, ",") {
				allowed[a] = true
			}
			oki := true
			for _, t := range toks {
				if !allowed[t] {
					oki = false
				}
			}
			return sv{V: c.Bool(oki), T: boolT}
		default:
			return sv{V: e.idx(int64(len(toks))), T: types.Typ[types.Int]}
		}
	case "haselem", "elems_distinct", "elems_in", "elemcount":
		// predicates over a list of string literals held in a slice (concrete or conditional list)
		v := arg(0)
		if lz, ok := v.V.(*LazyVal); ok {
			v.V = e.symVal(env.st, lz.T, lz.Name, 0)
		}
		sl, ok := v.V.(*SliceVal)
		if !ok {
			env.fail("%s of %T", name, v.V)
		}
		var items []CondItem
		concrete := true
		if sl.Obj != 0 {
			av := e.sliceBacking(env.st, sl)
			if av.List == nil || !sl.Off.IsConst() || sl.Off.C.Sign() != 0 {
				concrete = false
			} else {
				nl := len(av.List)
				if av.Conds == nil {
					if !sl.Len.IsConst() {
						concrete = false
					} else {
						nl = int(sl.Len.C.Int64())
					}
				}
				for i := 0; concrete && i < nl; i++ {
					sv0, isS := av.List[i].(*StringVal)
					if !isS {
						concrete = false
						break
					}
					cs, isC := concreteString(sv0)
					if !isC {
						concrete = false
						break
					}
					cd := c.True()
					if av.Conds != nil {
						cd = av.Conds[i]
					}
					items = append(items, CondItem{Cond: cd, Lit: cs})
				}
			}
		}
		if !concrete {
			// the list is not determined by this call alone (e.g. it extends a list the receiver already held)
			if name == "elemcount" {
				return sv{V: c.Fresh("elemcount", e.idxSort()), T: types.Typ[types.Int]}
			}
			return sv{V: c.Fresh(name, BoolS), T: boolT}
		}
		seg := StrSeg{Kind: "condjoin", Lit: "\x00", Items: items}
		switch name {
		case "haselem":
			want, _ := concreteString(arg(1).V.(*StringVal))
			r := c.False()
			for _, it := range items {
				if it.Lit == want {
					r = c.Or(r, it.Cond)
				}
			}
			return sv{V: r, T: boolT}
		case "elems_distinct":
			r := c.True()
			for i := range items {
				for j := i + 1; j < len(items); j++ {
					if items[i].Lit == items[j].Lit {
						r = c.And(r, c.Not(c.And(items[i].Cond, items[j].Cond)))
					}
				}
			}
			return sv{V: r, T: boolT}
		case "elems_in":
			set, _ := concreteString(arg(1).V.(*StringVal))
			allowed := map[string]bool{}
			for _, a := range strings.Split(set, ",") {
				allowed[a] = true
			}
			r := c.True()
			for _, it := range items {
				if !allowed[it.Lit] {
					r = c.And(r, c.Not(it.Cond))
				}
			}
			return sv{V: r, T: boolT}
		default:
			_ = seg
			t := e.idx(0)
			for _, it := range items {
				t = c.Add(t, c.Ite(it.Cond, e.idx(1), e.idx(0)))
			}
			return sv{V: t, T: types.Typ[types.Int]}
		}
	case "trimmed":
		// trimmed(s): strings.TrimSpace(s), the same window the engine uses for the call
		v := arg(0)
		s0, ok := v.V.(*StringVal)
		if !ok {
			env.fail("trimmed of %T", v.V)
		}
		if cs, isC := concreteString(s0); isC {
			return sv{V: e.strConst(strings.TrimSpace(cs)), T: types.Typ[types.String]}
		}
		return sv{V: e.trimSpace(env.st, s0), T: types.Typ[types.String]}
	case "inmap":
		// inmap(Table, k): k is a key of the package-level map Table (same predicate the engine uses for lookups)
		id, ok := n.Args[0].(*ast.Ident)
		if !ok {
			env.fail("inmap: first argument must name a package-level map")
		}
		kv := arg(1)
		kt, ok := kv.V.(*Term)
		if !ok {
			env.fail("inmap: key must be a scalar")
		}
		return sv{V: c.App("inmap_global."+id.Name, BoolS, kt), T: boolT}
	case "errtext_has_hex":
		// errtext_has_hex(err, x, w): err was built by fmt.Errorf / errors.New and its text contains x in %0wx form
		v := arg(0)
		iv, ok := v.V.(*IfaceVal)
		if !ok {
			env.fail("errtext_has_hex of %T", v.V)
		}
		if iv.Msg == nil || iv.Msg.Tag == nil {
			return sv{V: c.False(), T: boolT}
		}
		wv := arg(2)
		if wv.U == nil {
			env.fail("errtext_has_hex: width must be a constant")
		}
		r := c.False()
		for _, sg := range iv.Msg.Tag.Segs {
			if (sg.Kind == "hex" || sg.Kind == "HEX") && sg.W == int(wv.U.Int64()) {
				x, _ := env.term(arg(1), sv{V: sg.T})
				if x.S == sg.T.S {
					r = c.Or(r, c.Eq(sg.T, x))
				}
			}
		}
		return sv{V: r, T: boolT}
	case "ordered":
		// ordered(s): the order of the tokens of s is determined by the code (not by map iteration order)
		v := arg(0)
		sv0, ok := v.V.(*StringVal)
		if !ok {
			env.fail("ordered of %T", v.V)
		}
		if sv0.Tag != nil && len(sv0.Tag.Segs) == 1 && sv0.Tag.Segs[0].Kind == "condjoin" {
			return sv{V: c.Bool(!sv0.Tag.Segs[0].Unordered), T: boolT}
		}
		return sv{V: c.True(), T: boolT}
	case "lacks":
		// lacks(s, c): byte c does not occur in string s. Besides the quantified meaning the result carries a
		// marker predicate on the identity of s, which the string intrinsics look up in the path condition
		// (a whole input string without the separator is one piece of a Split). The marker has no definition:
		// lacks() can be assumed about inputs, never proved.
		v := arg(0)
		sval, ok := v.V.(*StringVal)
		if !ok {
			env.fail("lacks of %T", v.V)
		}
		bt := sv{V: zeroOf(c, e.elemSort(types.Typ[types.Uint8])), T: types.Typ[types.Uint8]}
		ch, _ := env.term(arg(1), bt)
		if !ch.IsConst() {
			env.fail("lacks: the byte must be a constant")
		}
		if str, isc := concreteString(sval); isc {
			return sv{V: c.Bool(strings.IndexByte(str, byte(ch.C.Uint64())) < 0), T: boolT}
		}
		k := c.Var(c.FreshName("k"), e.idxSort())
		body := c.Implies(e.inRange(k, sval.Len), c.Not(c.Eq(e.sel(sval.C, c.Add(sval.Off, k)), ch)))
		r := c.Forall([]*Term{k}, body)
		if id := e.strIdent(sval); id != nil {
			r = c.And(r, c.App(fmt.Sprintf("lacks_%02x", ch.C.Uint64()), BoolS, id...))
		}
		return sv{V: r, T: boolT}
	case "text":
		// text(part, ...): the string made of the parts in order; a part is a string expression, dec(x)
		// (signed decimal rendering of an integer) or udec(x) (unsigned). The result carries the list of its
		// segments, so that texteq can compare renderings without reasoning about digits.
		var segs []StrSeg
		for _, a := range n.Args {
			if ce, ok := a.(*ast.CallExpr); ok {
				if id, ok := ce.Fun.(*ast.Ident); ok && (id.Name == "dec" || id.Name == "udec") && len(ce.Args) == 1 {
					x, _ := env.term(env.eval(ce.Args[0]), sv{V: e.idx(0), T: types.Typ[types.Int64]})
					segs = append(segs, StrSeg{Kind: "dec", T: x, Signed: id.Name == "dec"})
					continue
				}
			}
			v := env.eval(a)
			sval, ok := v.V.(*StringVal)
			if !ok {
				env.fail("text: part %s is not a string", exprText(a))
			}
			if str, isc := concreteString(sval); isc {
				segs = append(segs, StrSeg{Kind: "lit", Lit: str})
			} else if sval.Tag != nil {
				segs = append(segs, sval.Tag.Segs...)
			} else {
				segs = append(segs, StrSeg{Kind: "str", S: sval})
			}
		}
		return sv{V: e.stringFromSegs(env.st, segs), T: types.Typ[types.String]}
	case "texteq":
		// texteq(a, b): a and b are the same text, decided segment by segment (literal against literal,
		// number against number, embedded string against embedded string). Different segmentations of
		// possibly equal texts are not recognised (the result is then false).
		av, bv := arg(0), arg(1)
		as, ok1 := av.V.(*StringVal)
		bs, ok2 := bv.V.(*StringVal)
		if !ok1 || !ok2 {
			env.fail("texteq of %T, %T", av.V, bv.V)
		}
		sa, oka := concreteString(as)
		sb, okb := concreteString(bs)
		if oka && okb {
			return sv{V: c.Bool(sa == sb), T: boolT}
		}
		na, nb := normSegs(e, env.st, as), normSegs(e, env.st, bs)
		if os.Getenv("GOVC_DEBUG") != "" {
			for _, x := range [][]StrSeg{na, nb} {
				var d []string
				for _, sg := range x {
					d = append(d, fmt.Sprintf("%s:%q:%v", sg.Kind, sg.Lit, sg.T))
				}
				debugf("texteq segs: %s", strings.Join(d, " | "))
			}
		}
		if na == nil || nb == nil || len(na) != len(nb) {
			return sv{V: c.False(), T: boolT}
		}
		r := c.True()
		for i := range na {
			x, y := na[i], nb[i]
			if x.Kind != y.Kind {
				return sv{V: c.False(), T: boolT}
			}
			switch x.Kind {
			case "lit":
				if x.Lit != y.Lit {
					return sv{V: c.False(), T: boolT}
				}
			case "dec":
				if x.Signed != y.Signed || x.T.S != y.T.S {
					// renderings of the same non-negative value agree; compare in the wider reading
					if x.T.S != y.T.S {
						return sv{V: c.False(), T: boolT}
					}
					if x.Signed != y.Signed {
						r = c.And(r, c.Eq(x.T, y.T), c.Le(zeroOf(c, x.T.S), x.T, true))
						continue
					}
				}
				r = c.And(r, c.Eq(x.T, y.T))
			case "str":
				r = c.And(r, e.strEq(env.st, x.S, y.S))
			default:
				return sv{V: c.False(), T: boolT}
			}
		}
		return sv{V: r, T: boolT}
	case "isdec":
		// isdec(s, x): s is the decimal rendering of an integer equal to x
		v := arg(0)
		s, ok := v.V.(*StringVal)
		if !ok {
			env.fail("isdec of %T", v.V)
		}
		if str, isc := concreteString(s); isc {
			bi, ok := new(big.Int).SetString(str, 10)
			if !ok || bi.String() != str {
				return sv{V: c.False(), T: boolT}
			}
			x, _ := env.term(arg(1), sv{V: e.idx(0), T: types.Typ[types.Int64]})
			if x.S.IsBV() {
				return sv{V: c.Eq(c.BVConst(bi, x.S.W), x), T: boolT}
			}
			return sv{V: c.Eq(c.IntConst(bi), x), T: boolT}
		}
		if s.Tag == nil || len(s.Tag.Segs) != 1 || s.Tag.Segs[0].Kind != "dec" {
			return sv{V: c.False(), T: boolT}
		}
		x, _ := env.term(arg(1), sv{V: s.Tag.Segs[0].T, T: types.Typ[types.Int64]})
		if x.S != s.Tag.Segs[0].T.S {
			env.fail("isdec: sort mismatch")
		}
		return sv{V: c.Eq(s.Tag.Segs[0].T, x), T: boolT}
	case "parse_ok", "parse_i64", "parse_u64":
		v := arg(0)
		s, ok := v.V.(*StringVal)
		if !ok {
			env.fail("%s of %T", name, v.V)
		}
		var t types.Type = types.Typ[types.Int64]
		if name == "parse_u64" {
			t = types.Typ[types.Uint64]
		}
		so := e.sortOf(t)
		if str, isc := concreteString(s); isc {
			// concrete evaluation (replay): strconv semantics, base 10, 64 bits
			var val *big.Int
			okp := false
			if name == "parse_u64" {
				u, err := strconv.ParseUint(str, 10, 64)
				okp, val = err == nil, new(big.Int).SetUint64(u)
			} else {
				i, err := strconv.ParseInt(str, 10, 64)
				okp, val = err == nil, big.NewInt(i)
			}
			if name == "parse_ok" {
				return sv{V: c.Bool(okp), T: boolT}
			}
			return sv{V: c.NumConst(val, so), T: t}
		}
		id := e.strIdent(s)
		if id == nil {
			env.fail("%s: string is not a symbolic input", name)
		}
		if name == "parse_ok" {
			return sv{V: c.And(c.App("parse_ok", BoolS, id...), c.Not(c.Eq(s.Len, e.idx(0)))), T: boolT}
		}
		return sv{V: c.App(sanitize("parse_val_"+so.SMT()), so, id...), T: t}
	}
	// spec functions from the prelude
	if d, ok := c.SpecFns[name]; ok {
		if len(d.Args) != len(n.Args) {
			env.fail("spec function %s wants %d arguments", name, len(d.Args))
		}
		args := make([]*Term, len(n.Args))
		for i := range n.Args {
			v := arg(i)
			if v.U != nil {
				args[i] = c.NumConst(v.U, d.Args[i])
			} else {
				t, ok := v.V.(*Term)
				if !ok {
					env.fail("spec function %s: argument %d is %T", name, i, v.V)
				}
				args[i] = t
			}
			if args[i].S != d.Args[i] {
				env.fail("spec function %s: argument %d has sort %s, want %s", name, i, args[i].S.SMT(), d.Args[i].SMT())
			}
		}
		return sv{V: c.App(name, d.Ret, args...), T: sortType(d.Ret)}
	}
	if h := e.W.specCall; h != nil {
		if r, ok := h(env, name, n); ok {
			return r
		}
	}
	env.fail("unknown spec function %q", name)
	return sv{}
}

func sortType(s Sort) types.Type {
	switch {
	case s.IsBool():
		return types.Typ[types.Bool]
	case s.IsInt():
		return types.Typ[types.Int64]
	}
	switch s.W {
	case 8:
		return types.Typ[types.Uint8]
	case 16:
		return types.Typ[types.Uint16]
	case 32:
		return types.Typ[types.Uint32]
	}
	return types.Typ[types.Uint64]
}

func shortType(t types.Type) string {
	s := types.TypeString(t, func(p *types.Package) string { return p.Name() })
	return s
}

func objOf(v Val) int {
	switch x := v.(type) {
	case *SliceVal:
		return x.Obj
	case *PtrVal:
		return x.Obj
	}
	return 0
}

// deepEq: structural equality of a value in two states (follows pointers to depth 3).
func (env *SpecEnv) deepEq(a, b Val, sa, sb *State, depth int) *Term {
	e := env.e
	c := e.C
	if depth > 4 {
		return c.True()
	}
	if lz, ok := a.(*LazyVal); ok {
		if lb, ok := b.(*LazyVal); ok && lb.Name == lz.Name {
			return c.True()
		}
		a = e.symVal(sa, lz.T, lz.Name, 0)
	}
	if lz, ok := b.(*LazyVal); ok {
		b = e.symVal(sb, lz.T, lz.Name, 0)
	}
	switch x := a.(type) {
	case *Term:
		return c.Eq(x, b.(*Term))
	case *PtrVal:
		y := b.(*PtrVal)
		if x.Obj != y.Obj {
			return c.False()
		}
		if x.Obj == 0 {
			return c.True()
		}
		return env.deepEq(e.load(sa, x), e.load(sb, y), sa, sb, depth+1)
	case *StructVal:
		y := b.(*StructVal)
		r := c.True()
		for i := range x.Fields {
			r = c.And(r, env.deepEq(x.Fields[i], y.Fields[i], sa, sb, depth+1))
		}
		return r
	case *SliceVal:
		y := b.(*SliceVal)
		if x.Obj == 0 && y.Obj == 0 {
			return c.Eq(x.Len, y.Len)
		}
		if x.Obj != 0 {
			if av := e.sliceBacking(sa, x); av != nil && !av.Scalar {
				if y.Obj == 0 {
					return c.False()
				}
				bv := e.sliceBacking(sb, y)
				if len(av.List) != len(bv.List) || !x.Len.IsConst() || x.Len != y.Len || x.Off != y.Off {
					return c.False()
				}
				r := c.True()
				o, l := int(x.Off.C.Int64()), int(x.Len.C.Int64())
				for i := o; i < o+l; i++ {
					r = c.And(r, env.deepEq(av.List[i], bv.List[i], sa, sb, depth+1))
				}
				return r
			}
		}
		return env.seqEq(env.withState(sa).seq(sv{V: x}), env.withState(sb).seq(sv{V: y}))
	case *StringVal:
		return e.strEq(sa, x, b.(*StringVal))
	case *ArrayVal:
		y := b.(*ArrayVal)
		if x.Scalar {
			return env.seqEq(env.withState(sa).seq(sv{V: x}), env.withState(sb).seq(sv{V: y}))
		}
		r := c.True()
		for i := range x.List {
			r = c.And(r, env.deepEq(x.List[i], y.List[i], sa, sb, depth+1))
		}
		return r
	case *IfaceVal:
		y := b.(*IfaceVal)
		if x.Dyn != nil && y.Dyn != nil && types.Identical(x.Dyn, y.Dyn) {
			return c.And(c.Eq(x.IsNil, y.IsNil), env.deepEq(x.V, y.V, sa, sb, depth+1))
		}
		if x == y {
			return c.True()
		}
		return c.And(x.IsNil, y.IsNil)
	case *TimeVal:
		y := b.(*TimeVal)
		return c.And(c.Eq(x.Sec, y.Sec), c.Eq(x.Nsec, y.Nsec))
	case *MapVal:
		return c.Bool(x.Obj == b.(*MapVal).Obj)
	case *FuncVal, *OpaqueVal, nil:
		return c.True()
	}
	env.fail("deepEq of %T", a)
	return nil
}

// concreteString returns the Go string when every byte and the length are constants.
// normSegs: the segment list of a tagged string with constant numbers rendered and adjacent literals merged.
func normSegs(e *Exec, st *State, s *StringVal) []StrSeg {
	facts := constFacts(st.PC)
	var in []StrSeg
	if str, ok := concreteString(s); ok {
		in = []StrSeg{{Kind: "lit", Lit: str}}
	} else if s.Tag != nil {
		in = s.Tag.Segs
	} else {
		in = []StrSeg{{Kind: "str", S: s}}
	}
	var out []StrSeg
	for _, sg := range in {
		switch sg.Kind {
		case "lit":
		case "dec", "udec":
			sg.Kind = "dec"
			if len(facts) > 0 {
				sg.T = e.C.Subst(sg.T, facts)
			}
			if sg.T.IsConst() {
				v := new(big.Int).Set(sg.T.C)
				if sg.Signed && sg.T.S.IsBV() && v.Bit(sg.T.S.W-1) == 1 {
					v.Sub(v, new(big.Int).Lsh(big.NewInt(1), uint(sg.T.S.W)))
				}
				sg = StrSeg{Kind: "lit", Lit: v.String()}
			}
		case "str":
			if str, ok := concreteString(sg.S); ok {
				sg = StrSeg{Kind: "lit", Lit: str}
			}
		default:
			return nil
		}
		if sg.Kind == "lit" {
			if sg.Lit == "" {
				continue
			}
			if len(out) > 0 && out[len(out)-1].Kind == "lit" {
				out[len(out)-1].Lit += sg.Lit
				continue
			}
		}
		out = append(out, sg)
	}
	if out == nil {
		out = []StrSeg{}
	}
	return out
}

func concreteString(s *StringVal) (string, bool) {
	if !s.Len.IsConst() || !s.Off.IsConst() || !s.Len.C.IsInt64() || s.Len.C.Int64() > 1<<20 {
		return "", false
	}
	l, ok := s.C.(*ArrLit)
	if !ok {
		if s.Len.C.Sign() == 0 {
			return "", true
		}
		return "", false
	}
	off, n := int(s.Off.C.Int64()), int(s.Len.C.Int64())
	b := make([]byte, n)
	for i := 0; i < n; i++ {
		if off+i >= len(l.Vals) {
			f, ok := l.Rest.(*ArrFill)
			if !ok || !f.Val.IsConst() {
				return "", false
			}
			b[i] = byte(f.Val.C.Uint64())
			continue
		}
		if !l.Vals[off+i].IsConst() {
			return "", false
		}
		b[i] = byte(l.Vals[off+i].C.Uint64())
	}
	return string(b), true
}

// condTokens evaluates token predicates on a string built by Join over a conditional list of literals.
func (env *SpecEnv) condTokens(name string, n *ast.CallExpr, sg StrSeg) sv {
	e := env.e
	c := e.C
	boolT := types.Typ[types.Bool]
	lit := func(i int) string {
		v, ok := env.eval(n.Args[i]).V.(*StringVal)
		if !ok {
			env.fail("%s: argument %d must be a string literal", name, i)
		}
		s, _ := concreteString(v)
		return s
	}
	switch name {
	case "hastoken":
		if lit(2) != sg.Lit {
			env.fail("hastoken: separator differs from the one used by the code (%q)", sg.Lit)
		}
		want := lit(1)
		r := c.False()
		for _, it := range sg.Items {
			if it.Lit == want {
				r = c.Or(r, it.Cond)
			}
		}
		return sv{V: r, T: boolT}
	case "tokens_distinct":
		r := c.True()
		for i := range sg.Items {
			for j := i + 1; j < len(sg.Items); j++ {
				if sg.Items[i].Lit == sg.Items[j].Lit {
					r = c.And(r, c.Not(c.And(sg.Items[i].Cond, sg.Items[j].Cond)))
				}
			}
		}
		return sv{V: r, T: boolT}
	case "tokens_in":
		allowed := map[string]bool{}
		for _, a := range strings.Split(lit(2), ",") {
			allowed[a] = true
		}
		r := c.True()
		for _, it := range sg.Items {
			if !allowed[it.Lit] || strings.Contains(it.Lit, sg.Lit) {
				r = c.And(r, c.Not(it.Cond))
			}
		}
		return sv{V: r, T: boolT}
	case "tokencount":
		t := e.idx(0)
		for _, it := range sg.Items {
			t = c.Add(t, c.Ite(it.Cond, e.idx(1), e.idx(0)))
		}
		return sv{V: t, T: types.Typ[types.Int]}
	}
	env.fail("unsupported token predicate %s", name)
	return sv{}
}
