package vc

import (
	"time"
	"fmt"
	"go/constant"
	"go/token"
	"go/types"
	"math/big"
	"os"
	"runtime/debug"
	"sort"
	"strings"

	"golang.org/x/tools/go/ssa"
)

type work struct {
	st   *State
	fr   *Frame
	blk  *ssa.BasicBlock
	prev *ssa.BasicBlock
	idx  int
	// resumed: the block's entry (phis / loop-header protocol) has already been done; execution resumes at idx
	// (needed when idx is 0 anyway, i.e. a loop header without phi nodes)
	resumed bool
}

type restartCut struct{ h loopKey }

// execFunc symbolically executes fn from st with args; returns one outcome per terminating path.
func (e *Exec) execFunc(st *State, fn *ssa.Function, args []Val, bindings []Val, depth int) []Outcome {
	if fn.Blocks == nil {
		e.bail("function without body: %s", fn.String())
	}
	if depth > 12 {
		e.bail("inline depth exceeded at %s", fn.String())
	}
	fr := &Frame{Fn: fn, Env: map[ssa.Value]Val{}, Depth: depth}
	for i, p := range fn.Params {
		fr.Env[p] = args[i]
	}
	for i, fv := range fn.FreeVars {
		fr.Env[fv] = bindings[i]
	}
	var outs []Outcome
	wl := []work{{st: st, fr: fr, blk: fn.Blocks[0], prev: nil, idx: 0}}
	for len(wl) > 0 {
		w := wl[len(wl)-1]
		wl = wl[:len(wl)-1]
		if w.st.Dead {
			continue
		}
		nw, out := e.runBlock(w)
		wl = append(wl, nw...)
		if out != nil {
			outs = append(outs, *out)
		}
		if len(wl)+len(outs) > e.MaxPaths {
			e.bail("path explosion (> %d paths) in %s", e.MaxPaths, fn.String())
		}
		if !e.deadline.IsZero() && time.Now().After(e.deadline) {
			e.bail("generation budget of %.0f s used up in %s (%d paths pending)", GenBudget.Seconds(), fn.String(), len(wl))
		}
	}
	return outs
}

// runBlock executes instructions from w.idx in w.blk; returns follow-up work and/or an outcome.
func (e *Exec) runBlock(w work) ([]work, *Outcome) {
	st, fr, blk := w.st, w.fr, w.blk
	if w.idx == 0 && !w.resumed {
		// loop header handling
		if li := e.loops(fr.Fn); li.headers[blk] {
			cont, extra := e.enterHeader(st, fr, blk, w.prev)
			if !cont {
				return extra, nil
			}
		} else {
			// evaluate phis simultaneously
			e.evalPhis(st, fr, blk, w.prev)
		}
	}
	for i := w.idx; i < len(blk.Instrs); i++ {
		e.Steps++
		if e.Steps > e.MaxSteps {
			e.bail("step budget exceeded (%d)", e.MaxSteps)
		}
		instr := blk.Instrs[i]
		switch in := instr.(type) {
		case *ssa.Phi:
			continue // handled at entry
		case *ssa.DebugRef:
			continue
		case *ssa.If:
			c := e.val(st, fr, in.Cond).(*Term)
			t, f := blk.Succs[0], blk.Succs[1]
			if c.IsTrue() {
				return []work{{st, fr, t, blk, 0, false}}, nil
			}
			if c.IsFalse() {
				return []work{{st, fr, f, blk, 0, false}}, nil
			}
			if m := constFacts(st.PC); len(m) > 0 {
				if c2 := e.C.Subst(c, m); c2.IsConst() {
					if c2.IsTrue() {
						return []work{{st, fr, t, blk, 0, false}}, nil
					}
					return []work{{st, fr, f, blk, 0, false}}, nil
				}
			}
			if e.tryMergeTriangle(st, fr, blk, c) {
				return []work{{st, fr, e.mergedJoin, blk, e.mergedIdx, true}}, nil
			}
			// once a function has forked often, a branch is only taken when the path condition allows it: paths
			// that contradict what earlier branches established (and would only be discarded at the very end)
			// are what turns a loop over 32 characters into thousands of paths
			e.forks++
			if e.prune && e.forks > 128 && st.Record == nil {
				if e.pruneStart.IsZero() {
					e.pruneStart = time.Now()
				} else if time.Since(e.pruneStart) > 90*time.Second {
					e.bail("path explosion in %s (the attempt with feasibility checks at every branch ran out of its 90 s)", fr.Fn)
				}
				if e.quickValid(st, c) {
					return []work{{st, fr, t, blk, 0, false}}, nil
				}
				if e.quickValid(st, e.C.Not(c)) {
					return []work{{st, fr, f, blk, 0, false}}, nil
				}
			}
			e.noteSymbolicBranch(fr, blk)
			st2 := st.clone()
			fr2 := fr.clone()
			st.assume(c)
			st2.assume(e.C.Not(c))
			// push false branch first so that true branch is explored first (DFS)
			return []work{{st2, fr2, f, blk, 0, false}, {st, fr, t, blk, 0, false}}, nil
		case *ssa.Jump:
			return []work{{st, fr, blk.Succs[0], blk, 0, false}}, nil
		case *ssa.Return:
			res := make([]Val, len(in.Results))
			for k, r := range in.Results {
				res[k] = e.val(st, fr, r)
			}
			return nil, &Outcome{St: st, Results: res}
		case *ssa.Panic:
			if fr.Fn.Recover != nil {
				e.bail("panic in function with recover: %s", fr.Fn)
			}
			e.explicitPanic(st, fr, in)
			return nil, nil
		case *ssa.RunDefers:
			sts := e.runDefers(st, fr)
			if len(sts) == 1 && sts[0].st == st {
				continue
			}
			var ws []work
			for _, s := range sts {
				ws = append(ws, work{s.st, s.fr, blk, w.prev, i + 1, false})
			}
			return ws, nil
		case *ssa.Defer:
			fr.Defers = append(fr.Defers, in)
			// capture argument values now
			env := map[ssa.Value]Val{}
			for _, a := range in.Call.Args {
				env[a] = e.val(st, fr, a)
			}
			if in.Call.IsInvoke() {
				env[in.Call.Value] = e.val(st, fr, in.Call.Value)
			} else if _, ok := in.Call.Value.(*ssa.Function); !ok {
				if _, ok := in.Call.Value.(*ssa.Builtin); !ok {
					env[in.Call.Value] = e.val(st, fr, in.Call.Value)
				}
			}
			fr.DeferEnv = append(fr.DeferEnv, env)
			continue
		case *ssa.Go:
			e.goStmt(st, fr, in)
			continue
		case *ssa.Call:
			rs := e.call(st, fr, in.Common(), in, in.Type())
			if len(rs) == 0 {
				return nil, nil
			}
			if len(rs) == 1 && rs[0].st == st {
				fr.Env[in] = rs[0].v
				continue
			}
			var ws []work
			for k := len(rs) - 1; k >= 0; k-- {
				r := rs[k]
				f2 := fr
				if k > 0 {
					f2 = fr.clone()
				}
				f2.Env[in] = r.v
				ws = append(ws, work{r.st, f2, blk, w.prev, i + 1, false})
			}
			return ws, nil
		default:
			forks := e.simple(st, fr, instr)
			if forks != nil {
				var ws []work
				for k := len(forks) - 1; k >= 0; k-- {
					ws = append(ws, work{forks[k].st, forks[k].fr, blk, w.prev, i + 1, false})
				}
				return ws, nil
			}
			if st.Dead {
				return nil, nil
			}
		}
	}
	e.bail("fell off block %d of %s", blk.Index, fr.Fn)
	return nil, nil
}

type stfr struct {
	st *State
	fr *Frame
}

type callRes struct {
	st *State
	v  Val
}

func (e *Exec) evalPhis(st *State, fr *Frame, blk, prev *ssa.BasicBlock) {
	if prev == nil {
		return
	}
	pi := -1
	for k, p := range blk.Preds {
		if p == prev {
			pi = k
			break
		}
	}
	var phis []*ssa.Phi
	var vals []Val
	for _, in := range blk.Instrs {
		ph, ok := in.(*ssa.Phi)
		if !ok {
			break
		}
		phis = append(phis, ph)
		vals = append(vals, e.val(st, fr, ph.Edges[pi]))
	}
	for k, ph := range phis {
		fr.Env[ph] = vals[k]
	}
}

// val evaluates an SSA value in a frame.
func (e *Exec) val(st *State, fr *Frame, v ssa.Value) Val {
	switch x := v.(type) {
	case *ssa.Const:
		return e.constVal(st, x)
	case *ssa.Function:
		return &FuncVal{Fn: x}
	case *ssa.Builtin:
		return &FuncVal{Builtin: x}
	case *ssa.Global:
		return e.globalPtr(st, x)
	}
	r, ok := fr.Env[v]
	if !ok {
		e.bail("undefined SSA value %s (%T) in %s", v.Name(), v, fr.Fn)
	}
	return r
}

func (e *Exec) constVal(st *State, c *ssa.Const) Val {
	t := c.Type()
	if c.Value == nil {
		return e.zeroVal(st, t)
	}
	switch {
	case isBoolType(t):
		return e.C.Bool(constant.BoolVal(c.Value))
	case isIntType(t):
		bi, ok := constant.Val(constant.ToInt(c.Value)).(*big.Int)
		if !ok {
			i64, _ := constant.Int64Val(constant.ToInt(c.Value))
			bi = big.NewInt(i64)
		}
		return e.C.NumConst(bi, e.sortOf(t))
	case isStringType(t):
		return e.strConst(constant.StringVal(c.Value))
	case isFloatType(t):
		return &OpaqueVal{T: t, Name: "float:" + c.Value.ExactString()}
	}
	e.bail("unsupported constant %s of type %s", c.Value, t)
	return nil
}

func (e *Exec) strConst(s string) *StringVal {
	vals := make([]*Term, len(s))
	es := e.elemSort(types.Typ[types.Uint8])
	for i := 0; i < len(s); i++ {
		vals[i] = e.C.NumConst(big.NewInt(int64(s[i])), es)
	}
	return &StringVal{C: &ArrLit{Vals: vals, Rest: &ArrFill{Val: e.C.NumConst(big.NewInt(0), es)}}, Off: e.idx(0), Len: e.idx(int64(len(s))), Tag: &StrTag{Segs: []StrSeg{{Kind: "lit", Lit: s}}}}
}

func (e *Exec) elemSort(t types.Type) Sort { return e.sortOf(t) }

// zeroVal builds the zero value of a type.
func (e *Exec) zeroVal(st *State, t types.Type) Val {
	if isTimeType(t) {
		if !e.IntMode {
			return &OpaqueVal{T: t, Name: "time.zero"}
		}
		return &TimeVal{Sec: e.C.Inti(-62135596800), Nsec: e.C.Inti(0)}
	}
	switch u := t.Underlying().(type) {
	case *types.Basic:
		switch {
		case isBoolType(t):
			return e.C.False()
		case isIntType(t) || u.Kind() == types.UnsafePointer:
			return e.C.NumConst(big.NewInt(0), e.sortOf(t))
		case isStringType(t):
			return e.strConst("")
		case isFloatType(t):
			return &OpaqueVal{T: t, Name: "float:0"}
		case u.Kind() == types.UntypedNil:
			return &PtrVal{}
		}
	case *types.Pointer:
		return &PtrVal{T: u.Elem()}
	case *types.Slice:
		return &SliceVal{Off: e.idx(0), Len: e.idx(0), Cap: e.idx(0), Nil: e.C.True(), ElemT: u.Elem()}
	case *types.Struct:
		sv := &StructVal{T: u, Named: t, Fields: make([]Val, u.NumFields())}
		for i := 0; i < u.NumFields(); i++ {
			sv.Fields[i] = e.zeroVal(st, u.Field(i).Type())
		}
		return sv
	case *types.Array:
		return e.zeroArray(st, u.Elem(), e.idx(u.Len()), int(u.Len()))
	case *types.Interface:
		return &IfaceVal{IsNil: e.C.True()}
	case *types.Map:
		return &MapVal{Obj: 0}
	case *types.Signature:
		return &FuncVal{}
	case *types.Chan:
		return &OpaqueVal{T: t, Name: "nilchan"}
	case *types.Tuple:
		tv := make(TupleVal, u.Len())
		for i := range tv {
			tv[i] = e.zeroVal(st, u.At(i).Type())
		}
		return tv
	}
	e.bail("zero value of unsupported type %s", t)
	return nil
}

func (e *Exec) zeroArray(st *State, elem types.Type, length *Term, n int) *ArrayVal {
	if isScalarType(elem) {
		es := e.elemSort(elem)
		var z *Term
		if es.IsBool() {
			z = e.C.False()
		} else {
			z = e.C.NumConst(big.NewInt(0), es)
		}
		return &ArrayVal{ElemT: elem, Scalar: true, Elem: es, C: &ArrFill{Val: z}, Len: length}
	}
	if n < 0 {
		e.bail("array of non-scalar %s with symbolic length", elem)
	}
	if n > 4096 {
		e.bail("array of non-scalar %s too long (%d)", elem, n)
	}
	av := &ArrayVal{ElemT: elem, Len: length, List: make([]Val, n)}
	for i := range av.List {
		av.List[i] = e.zeroVal(st, elem)
	}
	return av
}

// ---- globals ----

func (e *Exec) globalPtr(st *State, g *ssa.Global) Val {
	id, ok := e.W.globalObj(e, st, g)
	if !ok {
		e.bail("unsupported global %s", g)
	}
	return &PtrVal{Obj: id, T: g.Type().(*types.Pointer).Elem()}
}

// ---- memory access ----

func (e *Exec) root(st *State, obj int) Val {
	v, ok := st.Heap[obj]
	if !ok {
		if os.Getenv("GOVC_DEBUG") != "" {
			debug.PrintStack()
		}
		e.bail("dangling object %d", obj)
	}
	if lz, ok := v.(*LazyVal); ok {
		v = e.symVal(st, lz.T, lz.Name, 0)
		st.Heap[obj] = v
	}
	return v
}

func (e *Exec) navigate(st *State, v Val, path []PathElem) Val {
	for _, pe := range path {
		if lz, ok := v.(*LazyVal); ok {
			v = e.symVal(st, lz.T, lz.Name, 0)
		}
		switch x := v.(type) {
		case *StructVal:
			v = x.Fields[pe.Field]
		case *ArrayVal:
			v = e.arrGet(st, x, pe.Idx)
		default:
			e.bail("navigate into %T", v)
		}
	}
	return v
}

func (e *Exec) arrGet(st *State, a *ArrayVal, idx *Term) Val {
	if a.Scalar {
		return e.sel(a.C, idx)
	}
	if a.Sym != "" {
		v := e.symVal(st, a.ElemT, fmt.Sprintf("%s[#%d]", a.Sym, idx.ID()), 0)
		if a.SymMax != nil {
			switch x := v.(type) {
			case *StringVal:
				st.assume(e.leIdx(x.Len, a.SymMax))
			case *SliceVal:
				st.assume(e.leIdx(x.Len, a.SymMax))
			}
		}
		return v
	}
	if !idx.IsConst() {
		e.bail("symbolic index into array of %s", a.ElemT)
	}
	i := int(idx.C.Int64())
	if i < 0 || i >= len(a.List) {
		e.bail("index %d out of modelled list (len %d)", i, len(a.List))
	}
	return a.List[i]
}

// update returns a copy of v with the location at path replaced by f(old).
func (e *Exec) update(st *State, v Val, path []PathElem, f func(old Val) Val) Val {
	if len(path) == 0 {
		return f(v)
	}
	if lz, ok := v.(*LazyVal); ok {
		v = e.symVal(st, lz.T, lz.Name, 0)
	}
	pe := path[0]
	switch x := v.(type) {
	case *StructVal:
		n := &StructVal{T: x.T, Named: x.Named, Fields: append([]Val{}, x.Fields...)}
		n.Fields[pe.Field] = e.update(st, x.Fields[pe.Field], path[1:], f)
		return n
	case *ArrayVal:
		if x.Scalar {
			if len(path) != 1 {
				e.bail("path below scalar array element")
			}
			nv := f(e.sel(x.C, pe.Idx)).(*Term)
			return &ArrayVal{ElemT: x.ElemT, Scalar: true, Elem: x.Elem, C: e.arrStore(x.C, pe.Idx, nv), Len: x.Len}
		}
		if x.Sym != "" {
			e.bail("store into symbolic list of %s", x.ElemT)
		}
		if !pe.Idx.IsConst() {
			e.bail("symbolic index store into array of %s", x.ElemT)
		}
		i := int(pe.Idx.C.Int64())
		if i < 0 || i >= len(x.List) {
			e.bail("store index %d out of modelled list (len %d)", i, len(x.List))
		}
		n := &ArrayVal{ElemT: x.ElemT, Len: x.Len, List: append([]Val{}, x.List...)}
		n.List[i] = e.update(st, x.List[i], path[1:], f)
		return n
	}
	e.bail("update into %T", v)
	return nil
}

func (e *Exec) arrStore(c ArrC, idx, v *Term) ArrC {
	// overwrite of same constant index on top
	if s, ok := c.(*ArrStore); ok && s.Idx == idx {
		return &ArrStore{Base: s.Base, Idx: idx, Val: v}
	}
	if l, ok := c.(*ArrLit); ok && idx.IsConst() && idx.C.IsInt64() && idx.C.Int64() >= 0 && int(idx.C.Int64()) < len(l.Vals) {
		nv := append([]*Term{}, l.Vals...)
		nv[idx.C.Int64()] = v
		return &ArrLit{Vals: nv, Rest: l.Rest}
	}
	if f, ok := c.(*ArrFill); ok && idx.IsConst() && idx.C.IsInt64() && idx.C.Int64() >= 0 && idx.C.Int64() < 64 {
		// turn into literal prefix for compactness
		n := int(idx.C.Int64()) + 1
		vals := make([]*Term, n)
		for i := range vals {
			vals[i] = f.Val
		}
		vals[n-1] = v
		return &ArrLit{Vals: vals, Rest: f}
	}
	if l, ok := c.(*ArrLit); ok && idx.IsConst() && idx.C.IsInt64() && int(idx.C.Int64()) == len(l.Vals) {
		return &ArrLit{Vals: append(append([]*Term{}, l.Vals...), v), Rest: l.Rest}
	}
	return &ArrStore{Base: c, Idx: idx, Val: v}
}

// sel reads element i of contents c.
func (e *Exec) sel(c ArrC, i *Term) *Term {
	switch a := c.(type) {
	case *ArrBase:
		e.C.DeclareFn(a.Name, []Sort{e.idxSort()}, a.Elem)
		return e.C.App(a.Name, a.Elem, i)
	case *ArrStore:
		eq := e.C.Eq(i, a.Idx)
		if eq.IsTrue() {
			return a.Val
		}
		if eq.IsFalse() {
			return e.sel(a.Base, i)
		}
		return e.C.Ite(eq, a.Val, e.sel(a.Base, i))
	case *ArrSplice:
		in := e.C.And(e.leIdx(a.DstOff, i), e.ltIdx(i, e.C.Add(a.DstOff, a.N)))
		if in.IsTrue() {
			return e.sel(a.Src, e.C.Add(a.SrcOff, e.C.Sub(i, a.DstOff)))
		}
		if in.IsFalse() {
			return e.sel(a.Base, i)
		}
		return e.C.Ite(in, e.sel(a.Src, e.C.Add(a.SrcOff, e.C.Sub(i, a.DstOff))), e.sel(a.Base, i))
	case *ArrFill:
		return a.Val
	case *ArrLit:
		if i.IsConst() {
			if i.C.IsInt64() && i.C.Int64() >= 0 && int(i.C.Int64()) < len(a.Vals) {
				return a.Vals[i.C.Int64()]
			}
			return e.sel(a.Rest, i)
		}
		r := e.sel(a.Rest, i)
		if len(a.Vals) > 300 {
			// large literal table: use an uninterpreted function with ground facts is overkill; bail
			e.bail("symbolic index into literal of %d elements", len(a.Vals))
		}
		for k := len(a.Vals) - 1; k >= 0; k-- {
			r = e.C.Ite(e.C.Eq(i, e.idx(int64(k))), a.Vals[k], r)
		}
		return r
	case *ArrIte:
		return e.C.Ite(a.C, e.sel(a.A, i), e.sel(a.B, i))
	case *ArrFn:
		return a.F(i)
	}
	panic("sel: unknown ArrC")
}

func (e *Exec) leIdx(a, b *Term) *Term { return e.C.Le(a, b, false) }
func (e *Exec) ltIdx(a, b *Term) *Term { return e.C.Lt(a, b, false) }

func (e *Exec) load(st *State, p *PtrVal) Val {
	if p.Obj == 0 {
		e.bail("load through nil pointer survived nil check")
	}
	r := e.root(st, p.Obj)
	v := e.navigate(st, r, p.Path)
	if lz, ok := v.(*LazyVal); ok {
		nv := e.symVal(st, lz.T, lz.Name, 0)
		st.Heap[p.Obj] = e.update(st, e.root(st, p.Obj), p.Path, func(Val) Val { return nv })
		return nv
	}
	return v
}

func (e *Exec) store(st *State, p *PtrVal, v Val) {
	if p.Obj == 0 {
		e.bail("store through nil pointer survived nil check")
	}
	if st.Record != nil {
		st.Record.note(p.Obj, p.Path)
	}
	e.frameCheck(st, p)
	st.Heap[p.Obj] = e.update(st, e.root(st, p.Obj), p.Path, func(Val) Val { return v })
}

// ---- simple (non-control) instructions ----

func (e *Exec) simple(st *State, fr *Frame, instr ssa.Instruction) []stfr {
	switch in := instr.(type) {
	case *ssa.Alloc:
		t := in.Type().(*types.Pointer).Elem()
		id := e.newObj(st, e.zeroVal(st, t), &ObjMeta{T: t, Fresh: true, Name: in.Comment})
		e.accountAlloc(st, fr, in, t, nil)
		fr.Env[in] = &PtrVal{Obj: id, T: t}
	case *ssa.BinOp:
		fr.Env[in] = e.binop(st, fr, in)
	case *ssa.UnOp:
		fr.Env[in] = e.unop(st, fr, in)
	case *ssa.Convert:
		fr.Env[in] = e.convert(st, fr, in, e.val(st, fr, in.X), in.X.Type(), in.Type())
	case *ssa.ChangeType:
		fr.Env[in] = e.val(st, fr, in.X)
	case *ssa.ChangeInterface:
		fr.Env[in] = e.val(st, fr, in.X)
	case *ssa.MakeInterface:
		fr.Env[in] = &IfaceVal{Dyn: in.X.Type(), V: e.val(st, fr, in.X), IsNil: e.C.False()}
	case *ssa.Extract:
		fr.Env[in] = e.val(st, fr, in.Tuple).(TupleVal)[in.Index]
	case *ssa.FieldAddr:
		p := e.val(st, fr, in.X).(*PtrVal)
		e.nilCheck(st, fr, in, p)
		if st.Dead {
			return nil
		}
		st0 := p.T
		if st0 == nil {
			st0 = in.X.Type().Underlying().(*types.Pointer).Elem()
		}
		ft := st0.Underlying().(*types.Struct).Field(in.Field).Type()
		fr.Env[in] = &PtrVal{Obj: p.Obj, Path: appendPath(p.Path, PathElem{Field: in.Field}), T: ft}
	case *ssa.Field:
		sv := e.forceStruct(st, e.val(st, fr, in.X), in.X.Type())
		v := sv.Fields[in.Field]
		if lz, ok := v.(*LazyVal); ok {
			v = e.symVal(st, lz.T, lz.Name, 0)
		}
		fr.Env[in] = v
	case *ssa.IndexAddr:
		return e.indexAddr(st, fr, in)
	case *ssa.Index:
		x := e.val(st, fr, in.X)
		idx := e.toIdx(e.val(st, fr, in.Index).(*Term), in.Index.Type())
		switch a := x.(type) {
		case *ArrayVal:
			e.oblige(st, fr, in, "idx", e.inRange(idx, a.Len))
			if st.Dead {
				return nil
			}
			fr.Env[in] = e.arrGet(st, a, idx)
		case *StringVal:
			e.oblige(st, fr, in, "idx", e.inRange(idx, a.Len))
			if st.Dead {
				return nil
			}
			fr.Env[in] = e.sel(a.C, e.C.Add(a.Off, idx))
		default:
			e.bail("Index on %T", x)
		}
	case *ssa.Lookup:
		return e.lookup(st, fr, in)
	case *ssa.Slice:
		e.sliceInstr(st, fr, in)
	case *ssa.MakeSlice:
		e.makeSlice(st, fr, in)
	case *ssa.Store:
		p := e.val(st, fr, in.Addr).(*PtrVal)
		e.nilCheck(st, fr, in, p)
		if st.Dead {
			return nil
		}
		e.store(st, p, e.val(st, fr, in.Val))
	case *ssa.Phi:
	case *ssa.TypeAssert:
		return e.typeAssert(st, fr, in)
	case *ssa.MakeClosure:
		fv := &FuncVal{Fn: in.Fn.(*ssa.Function)}
		for _, b := range in.Bindings {
			fv.Bindings = append(fv.Bindings, e.val(st, fr, b))
		}
		fr.Env[in] = fv
	case *ssa.MakeMap:
		mt := in.Type().Underlying().(*types.Map)
		e.nextObj++
		id := e.nextObj
		st.Maps[id] = &MapState{KeyT: mt.Key(), ValT: mt.Elem()}
		e.metaAll[id] = &ObjMeta{T: in.Type(), Fresh: true}
		fr.Env[in] = &MapVal{Obj: id}
	case *ssa.MapUpdate:
		e.mapUpdate(st, fr, in)
	case *ssa.Range:
		x := e.val(st, fr, in.X)
		switch r := x.(type) {
		case *StringVal:
			fr.Env[in] = &IterVal{Kind: "string", Str: r, Pos: e.idx(0)}
		case *MapVal:
			fr.Env[in] = &IterVal{Kind: "map", Map: r.Obj, Index: 0}
		default:
			e.bail("range over %T", x)
		}
	case *ssa.Next:
		return e.next(st, fr, in)
	case *ssa.SliceToArrayPointer:
		s := e.val(st, fr, in.X).(*SliceVal)
		at := in.Type().(*types.Pointer).Elem().Underlying().(*types.Array)
		e.oblige(st, fr, in, "slice", e.leIdx(e.idx(at.Len()), s.Len))
		if !s.Off.IsConst() || s.Off.C.Sign() != 0 {
			e.bail("slice-to-array-pointer at non-zero offset")
		}
		fr.Env[in] = &PtrVal{Obj: s.Obj, Path: s.Path, T: at}
	case *ssa.MakeChan, *ssa.Send, *ssa.Select:
		e.bail("channel operation %s", instr)
	case *ssa.MultiConvert:
		e.bail("multiconvert")
	default:
		e.bail("unsupported instruction %T: %s", instr, instr)
	}
	return nil
}

func appendPath(p []PathElem, pe PathElem) []PathElem {
	n := make([]PathElem, len(p)+1)
	copy(n, p)
	n[len(p)] = pe
	return n
}

func (e *Exec) forceStruct(st *State, v Val, t types.Type) *StructVal {
	switch x := v.(type) {
	case *StructVal:
		return x
	case *LazyVal:
		return e.symVal(st, x.T, x.Name, 0).(*StructVal)
	}
	e.bail("expected struct, got %T (%s)", v, t)
	return nil
}

func (e *Exec) toIdx(t *Term, ty types.Type) *Term {
	if e.IntMode {
		return t
	}
	if t.S.W == 64 {
		return t
	}
	if isSigned(ty) {
		return e.C.SExt(t, 64)
	}
	return e.C.ZExt(t, 64)
}

func (e *Exec) nilCheck(st *State, fr *Frame, in ssa.Instruction, p *PtrVal) {
	if p.Obj == 0 {
		e.oblige(st, fr, in, "nil", e.C.False())
		st.Dead = true
	}
}

func (e *Exec) indexAddr(st *State, fr *Frame, in *ssa.IndexAddr) []stfr {
	x := e.val(st, fr, in.X)
	idx := e.toIdx(e.val(st, fr, in.Index).(*Term), in.Index.Type())
	switch a := x.(type) {
	case *SliceVal:
		e.oblige(st, fr, in, "idx", e.inRange(idx, a.Len))
		if st.Dead {
			return nil
		}
		if a.Obj == 0 {
			// nil/empty slice: index always out of range
			st.Dead = true
			return nil
		}
		fr.Env[in] = &PtrVal{Obj: a.Obj, Path: appendPath(a.Path, PathElem{Field: -1, Idx: e.C.Add(a.Off, idx)}), T: a.ElemT}
	case *PtrVal: // pointer to array
		e.nilCheck(st, fr, in, a)
		if st.Dead {
			return nil
		}
		at := in.X.Type().Underlying().(*types.Pointer).Elem().Underlying().(*types.Array)
		e.oblige(st, fr, in, "idx", e.inRange(idx, e.idx(at.Len())))
		if st.Dead {
			return nil
		}
		fr.Env[in] = &PtrVal{Obj: a.Obj, Path: appendPath(a.Path, PathElem{Field: -1, Idx: idx}), T: at.Elem()}
	default:
		e.bail("IndexAddr on %T", x)
	}
	return nil
}

// sliceBacking returns the ArrayVal that backs slice s.
func (e *Exec) sliceBacking(st *State, s *SliceVal) *ArrayVal {
	if s.Obj == 0 {
		return nil
	}
	v := e.navigate(st, e.root(st, s.Obj), s.Path)
	if lz, ok := v.(*LazyVal); ok {
		nv := e.symVal(st, lz.T, lz.Name, 0)
		st.Heap[s.Obj] = e.update(st, e.root(st, s.Obj), s.Path, func(Val) Val { return nv })
		v = nv
	}
	av, ok := v.(*ArrayVal)
	if !ok {
		e.bail("slice backing is %T", v)
	}
	return av
}

func (e *Exec) sliceInstr(st *State, fr *Frame, in *ssa.Slice) {
	x := e.val(st, fr, in.X)
	var lo, hi, max *Term
	if in.Low != nil {
		lo = e.toIdx(e.val(st, fr, in.Low).(*Term), in.Low.Type())
	} else {
		lo = e.idx(0)
	}
	if in.High != nil {
		hi = e.toIdx(e.val(st, fr, in.High).(*Term), in.High.Type())
	}
	if in.Max != nil {
		max = e.toIdx(e.val(st, fr, in.Max).(*Term), in.Max.Type())
	}
	switch a := x.(type) {
	case *StringVal:
		if hi == nil {
			hi = a.Len
		}
		e.oblige(st, fr, in, "slice", e.C.And(e.nonNeg(lo), e.leIdx(hi, a.Len), e.leIdx(lo, hi)))
		fr.Env[in] = &StringVal{C: a.C, Off: e.C.Add(a.Off, lo), Len: e.C.Sub(hi, lo)}
	case *SliceVal:
		if hi == nil {
			hi = a.Len
		}
		capv := a.Cap
		if max != nil {
			e.oblige(st, fr, in, "slice", e.C.And(e.nonNeg(lo), e.leIdx(max, a.Cap), e.leIdx(hi, max), e.leIdx(lo, hi)))
			capv = max
		} else {
			e.oblige(st, fr, in, "slice", e.C.And(e.nonNeg(lo), e.leIdx(hi, a.Cap), e.leIdx(lo, hi)))
		}
		fr.Env[in] = &SliceVal{Obj: a.Obj, Path: a.Path, Off: e.C.Add(a.Off, lo), Len: e.C.Sub(hi, lo), Cap: e.C.Sub(capv, lo), Nil: a.Nil, ElemT: a.ElemT}
	case *PtrVal: // *[N]T
		e.nilCheck(st, fr, in, a)
		if st.Dead {
			return
		}
		at := in.X.Type().Underlying().(*types.Pointer).Elem().Underlying().(*types.Array)
		n := e.idx(at.Len())
		if hi == nil {
			hi = n
		}
		capv := n
		if max != nil {
			e.oblige(st, fr, in, "slice", e.C.And(e.nonNeg(lo), e.leIdx(max, n), e.leIdx(hi, max), e.leIdx(lo, hi)))
			capv = max
		} else {
			e.oblige(st, fr, in, "slice", e.C.And(e.nonNeg(lo), e.leIdx(hi, n), e.leIdx(lo, hi)))
		}
		fr.Env[in] = &SliceVal{Obj: a.Obj, Path: a.Path, Off: lo, Len: e.C.Sub(hi, lo), Cap: e.C.Sub(capv, lo), Nil: e.C.False(), ElemT: at.Elem()}
	default:
		e.bail("Slice on %T", x)
	}
}

func (e *Exec) makeSlice(st *State, fr *Frame, in *ssa.MakeSlice) {
	ln := e.toIdx(e.val(st, fr, in.Len).(*Term), in.Len.Type())
	cp := e.toIdx(e.val(st, fr, in.Cap).(*Term), in.Cap.Type())
	elem := in.Type().Underlying().(*types.Slice).Elem()
	// runtime panics: len out of range / cap out of range
	limit := e.lenLimit()
	e.oblige(st, fr, in, "makeslice", e.C.And(e.nonNeg(ln), e.leIdx(ln, cp), e.leIdx(cp, limit)))
	if st.Dead {
		return
	}
	n := -1
	if cp.IsConst() && cp.C.IsInt64() {
		n = int(cp.C.Int64())
	}
	asked := cp // what the allocation is charged for, whatever the model keeps of it
	if n < 0 && !isScalarType(elem) && ln.IsConst() && ln.C.Sign() == 0 {
		// make([]T, 0, n) of a non-scalar T with a symbolic capacity: an empty list (the capacity is not observable
		// through the values the verifier tracks; appends build fresh lists)
		n = 0
		cp = e.idx(0)
	}
	av := e.zeroArray(st, elem, cp, n)
	id := e.newObj(st, av, &ObjMeta{T: types.NewArray(elem, 0), Fresh: true})
	e.accountAlloc(st, fr, in, elem, asked)
	fr.Env[in] = &SliceVal{Obj: id, Off: e.idx(0), Len: ln, Cap: cp, Nil: e.C.False(), ElemT: elem}
}

func (e *Exec) lenLimit() *Term {
	v := new(big.Int).Lsh(big.NewInt(1), allocLimitBits)
	if e.IntMode {
		return e.C.IntConst(v)
	}
	return e.C.BVConst(v, 64)
}

func (e *Exec) typeAssert(st *State, fr *Frame, in *ssa.TypeAssert) []stfr {
	x := e.val(st, fr, in.X)
	iv, ok := x.(*IfaceVal)
	if !ok {
		e.bail("type assert on %T", x)
	}
	if !iv.IsNil.IsConst() || (iv.IsNil.IsFalse() && (iv.Dyn == nil || iv.Opaque)) {
		// unknown dynamic type
		if in.CommaOk {
			e.bail("type assertion on value of unknown dynamic type (%s)", in.AssertedType)
		}
		e.bail("type assertion on value of unknown dynamic type (%s)", in.AssertedType)
	}
	okv := false
	if iv.IsNil.IsFalse() {
		if types.IsInterface(in.AssertedType) {
			okv = types.Implements(iv.Dyn, in.AssertedType.Underlying().(*types.Interface))
		} else {
			okv = types.Identical(iv.Dyn, in.AssertedType)
		}
	}
	var res Val
	if okv {
		if types.IsInterface(in.AssertedType) {
			res = iv
		} else {
			res = iv.V
		}
	} else {
		res = e.zeroVal(st, in.AssertedType)
	}
	if in.CommaOk {
		fr.Env[in] = TupleVal{res, e.C.Bool(okv)}
		return nil
	}
	if !okv {
		e.oblige(st, fr, in, "typeassert", e.C.False())
		st.Dead = true
		return nil
	}
	fr.Env[in] = res
	return nil
}

// ---- operators ----

func (e *Exec) binop(st *State, fr *Frame, in *ssa.BinOp) Val {
	x := e.val(st, fr, in.X)
	y := e.val(st, fr, in.Y)
	xt := in.X.Type()
	switch in.Op {
	case token.EQL, token.NEQ:
		r := e.equal(st, x, y, xt)
		if in.Op == token.NEQ {
			r = e.C.Not(r)
		}
		return r
	}
	if isStringType(xt) {
		xs, ys := x.(*StringVal), y.(*StringVal)
		switch in.Op {
		case token.ADD:
			return e.strConcat(st, xs, ys)
		default:
			// ordering comparisons on strings: uninterpreted
			e.noteAbstract(st, "string ordering comparison")
			return e.C.Fresh("strcmp", BoolS)
		}
	}
	if isFloatType(xt) {
		return &OpaqueVal{T: in.Type(), Name: "float"}
	}
	a, ok1 := x.(*Term)
	b, ok2 := y.(*Term)
	if !ok1 || !ok2 {
		e.bail("binop %s on %T, %T", in.Op, x, y)
	}
	return e.arith(st, fr, in, in.Op, a, b, xt, in.Y.Type(), in.Type())
}

func (e *Exec) arith(st *State, fr *Frame, in ssa.Instruction, op token.Token, a, b *Term, xt, yt, rt types.Type) *Term {
	c := e.C
	if isBoolType(xt) {
		switch op {
		case token.AND, token.LAND:
			return c.And(a, b)
		case token.OR, token.LOR:
			return c.Or(a, b)
		case token.XOR:
			return c.Not(c.Eq(a, b))
		}
		e.bail("bool binop %s", op)
	}
	signed := isSigned(xt)
	if e.IntMode {
		return e.arithInt(st, fr, in, op, a, b, xt, yt, rt)
	}
	switch op {
	case token.ADD:
		return c.Add(a, b)
	case token.SUB:
		return c.Sub(a, b)
	case token.MUL:
		return c.Mul(a, b)
	case token.QUO:
		e.oblige(st, fr, in, "div", c.Not(c.Eq(b, c.NumConst(big.NewInt(0), b.S))))
		if signed {
			return c.SDiv(a, b)
		}
		return c.UDiv(a, b)
	case token.REM:
		e.oblige(st, fr, in, "div", c.Not(c.Eq(b, c.NumConst(big.NewInt(0), b.S))))
		if signed {
			return c.SRem(a, b)
		}
		return c.URem(a, b)
	case token.AND:
		return c.BvAnd(a, b)
	case token.OR:
		return c.BvOr(a, b)
	case token.XOR:
		return c.BvXor(a, b)
	case token.AND_NOT:
		return c.BvAnd(a, c.BvNot(b))
	case token.SHL, token.SHR:
		w := a.S.W
		// negative shift count panics
		if isSigned(yt) {
			e.oblige(st, fr, in, "shift", c.SLe(c.NumConst(big.NewInt(0), b.S), b))
		}
		var cnt *Term
		if b.S.W == w {
			cnt = b
		} else if b.S.W < w {
			cnt = c.ZExt(b, w)
		} else {
			// saturate
			big_ := c.ULe(c.BVu(uint64(w), b.S.W), b)
			cnt = c.Ite(big_, c.BVu(uint64(w), w), c.Extract(w-1, 0, b))
		}
		if op == token.SHL {
			return c.Shl(a, cnt)
		}
		if signed {
			return c.AShr(a, cnt)
		}
		return c.LShr(a, cnt)
	case token.LSS:
		return c.Lt(a, b, signed)
	case token.LEQ:
		return c.Le(a, b, signed)
	case token.GTR:
		return c.Lt(b, a, signed)
	case token.GEQ:
		return c.Le(b, a, signed)
	}
	e.bail("binop %s", op)
	return nil
}

// wrapInt: value of mathematical integer v wrapped to type t.
func (e *Exec) wrapInt(v *Term, t types.Type) *Term {
	c := e.C
	if lo, hi := typeRange(t); c.within(v, lo, hi) {
		return v
	}
	b := t.Underlying().(*types.Basic)
	w := intWidth(b)
	m := c.IntConst(new(big.Int).Lsh(big.NewInt(1), uint(w)))
	r := c.IMod(v, m)
	if isSigned(t) {
		half := c.IntConst(new(big.Int).Lsh(big.NewInt(1), uint(w-1)))
		return c.Ite(c.ILt(r, half), r, c.Sub(r, m))
	}
	return r
}

func pow2(k uint) *big.Int { return new(big.Int).Lsh(big.NewInt(1), k) }

func (e *Exec) arithInt(st *State, fr *Frame, in ssa.Instruction, op token.Token, a, b *Term, xt, yt, rt types.Type) *Term {
	c := e.C
	exactOp := func(v *Term) *Term {
		// result must be representable; then use it unwrapped
		if v.IsConst() {
			lo, hi := typeRange(xt)
			if v.C.Cmp(lo) >= 0 && v.C.Cmp(hi) <= 0 {
				return v
			}
		}
		if e.Exact {
			e.oblige(st, fr, in, "ovf", e.rangeFact(v, xt))
			return v
		}
		return e.wrapInt(v, xt)
	}
	switch op {
	case token.ADD:
		return exactOp(c.Add(a, b))
	case token.SUB:
		return exactOp(c.Sub(a, b))
	case token.MUL:
		return exactOp(c.Mul(a, b))
	case token.QUO, token.REM:
		e.oblige(st, fr, in, "div", c.Not(c.Eq(b, c.Inti(0))))
		// truncated division
		absA := c.Ite(c.ILt(a, c.Inti(0)), c.Neg(a), a)
		absB := c.Ite(c.ILt(b, c.Inti(0)), c.Neg(b), b)
		q := c.IDiv(absA, absB)
		neg := c.Not(c.Eq(c.ILt(a, c.Inti(0)), c.ILt(b, c.Inti(0))))
		tq := c.Ite(neg, c.Neg(q), q)
		if b.IsConst() && b.C.Sign() > 0 {
			// simpler form for positive constant divisors
			tq = c.Ite(c.ILt(a, c.Inti(0)), c.Neg(c.IDiv(c.Neg(a), b)), c.IDiv(a, b))
		}
		if op == token.QUO {
			return exactOp(tq) // MinInt / -1 overflows
		}
		return c.Sub(a, c.Mul(tq, b))
	case token.LSS:
		return c.ILt(a, b)
	case token.LEQ:
		return c.ILe(a, b)
	case token.GTR:
		return c.ILt(b, a)
	case token.GEQ:
		return c.ILe(b, a)
	case token.AND:
		// x & (2^k - 1)  ==  x mod 2^k   (two's complement, any sign)
		if k, ok := lowMask(b); ok {
			return c.IMod(a, c.IntConst(pow2(k)))
		}
		if k, ok := lowMask(a); ok {
			return c.IMod(b, c.IntConst(pow2(k)))
		}
		// x & m for a non-negative constant m with few set bits: the sum of the selected bits of x
		// (bit k of x is (x div 2^k) mod 2 in two's complement, for any sign of x)
		if r, ok := e.andConstInt(a, b); ok {
			return r
		}
		if r, ok := e.andConstInt(b, a); ok {
			return r
		}
	case token.SHR:
		if b.IsConst() && b.C.IsInt64() {
			k := uint(b.C.Int64())
			return c.IDiv(a, c.IntConst(pow2(k))) // floor division == arithmetic shift
		}
	case token.SHL:
		if b.IsConst() && b.C.IsInt64() {
			k := uint(b.C.Int64())
			return exactOp(c.Mul(a, c.IntConst(pow2(k))))
		}
	case token.OR:
		if r, ok := e.orInt(a, b); ok {
			return r
		}
	}
	e.bail("operator %s not expressible in arith-int mode at %s", op, e.posOf(in))
	return nil
}

// andConstInt: x & m over mathematical integers for a constant m >= 0 with at most 8 set bits.
func (e *Exec) andConstInt(x, m *Term) (*Term, bool) {
	c := e.C
	if !m.IsConst() || m.C.Sign() < 0 {
		return nil, false
	}
	bits := 0
	for k := 0; k < m.C.BitLen(); k++ {
		if m.C.Bit(k) == 1 {
			bits++
		}
	}
	if bits == 0 {
		return c.Inti(0), true
	}
	if bits > 8 {
		return nil, false
	}
	var r *Term
	for k := 0; k < m.C.BitLen(); k++ {
		if m.C.Bit(k) == 0 {
			continue
		}
		bit := c.Mul(c.IMod(c.IDiv(x, c.IntConst(pow2(uint(k)))), c.Inti(2)), c.IntConst(pow2(uint(k))))
		if r == nil {
			r = bit
		} else {
			r = c.Add(r, bit)
		}
	}
	return r, true
}

// orInt: a | b over mathematical integers when the operands have provably disjoint bit ranges
// (one a multiple of 2^k, the other within [0, 2^k)).
func (e *Exec) orInt(a, b *Term) (*Term, bool) {
	c := e.C
	if k, ok := e.multipleOfPow2(a); ok {
		if e.belowPow2(b, k) || c.within(b, big.NewInt(0), new(big.Int).Sub(pow2(k), big.NewInt(1))) {
			return c.Add(a, b), true
		}
	}
	if k, ok := e.multipleOfPow2(b); ok {
		if e.belowPow2(a, k) || c.within(a, big.NewInt(0), new(big.Int).Sub(pow2(k), big.NewInt(1))) {
			return c.Add(a, b), true
		}
	}
	// OR of sums of disjoint shifted bytes: (x | y) where both are non-negative and x is a multiple of 2^k > y
	if ka, ok := e.lowZeroBits(a); ok && c.within(b, big.NewInt(0), new(big.Int).Sub(pow2(ka), big.NewInt(1))) {
		return c.Add(a, b), true
	}
	if kb, ok := e.lowZeroBits(b); ok && c.within(a, big.NewInt(0), new(big.Int).Sub(pow2(kb), big.NewInt(1))) {
		return c.Add(a, b), true
	}
	return nil, false
}

func lowMask(t *Term) (uint, bool) {
	if !t.IsConst() || t.C.Sign() <= 0 {
		return 0, false
	}
	v := new(big.Int).Add(t.C, big.NewInt(1))
	if v.BitLen() > 0 && new(big.Int).And(v, t.C).Sign() == 0 {
		return uint(v.BitLen() - 1), true
	}
	return 0, false
}

// multipleOfPow2: syntactic check that t == x * 2^k
func (e *Exec) multipleOfPow2(t *Term) (uint, bool) {
	if t.Op == "*" && len(t.Args) == 2 {
		for _, a := range t.Args {
			if a.IsConst() && a.C.Sign() > 0 && a.C.BitLen() > 1 && new(big.Int).And(a.C, new(big.Int).Sub(a.C, big.NewInt(1))).Sign() == 0 {
				return uint(a.C.BitLen() - 1), true
			}
		}
	}
	return 0, false
}

// lowZeroBits: number of guaranteed-zero low bits of t (t is a sum of multiples of powers of two)
func (e *Exec) lowZeroBits(t *Term) (uint, bool) {
	if k, ok := e.multipleOfPow2(t); ok {
		return k, true
	}
	if t.Op == "+" && len(t.Args) == 2 {
		ka, oka := e.lowZeroBits(t.Args[0])
		kb, okb := e.lowZeroBits(t.Args[1])
		if oka && okb {
			if ka < kb {
				return ka, true
			}
			return kb, true
		}
	}
	return 0, false
}

// belowPow2: syntactic check 0 <= t < 2^k (t is "x mod 2^j" with j<=k)
func (e *Exec) belowPow2(t *Term, k uint) bool {
	if t.Op == "mod" && t.Args[1].IsConst() {
		return t.Args[1].C.Cmp(pow2(k)) <= 0
	}
	if t.IsConst() {
		return t.C.Sign() >= 0 && t.C.Cmp(pow2(k)) < 0
	}
	return false
}

func (e *Exec) unop(st *State, fr *Frame, in *ssa.UnOp) Val {
	x := e.val(st, fr, in.X)
	switch in.Op {
	case token.MUL: // load
		p, ok := x.(*PtrVal)
		if !ok {
			e.bail("load from %T", x)
		}
		e.nilCheck(st, fr, in, p)
		if st.Dead {
			return nil
		}
		return e.load(st, p)
	case token.NOT:
		return e.C.Not(x.(*Term))
	case token.SUB:
		if _, ok := x.(*OpaqueVal); ok {
			return x
		}
		t := x.(*Term)
		if e.IntMode {
			v := e.C.Neg(t)
			if e.Exact {
				e.oblige(st, fr, in, "ovf", e.rangeFact(v, in.Type()))
				return v
			}
			return e.wrapInt(v, in.Type())
		}
		return e.C.Neg(t)
	case token.XOR:
		t := x.(*Term)
		if e.IntMode {
			// ^x == -x-1 (signed) ; unsigned: max - x
			if isSigned(in.Type()) {
				return e.C.Sub(e.C.Neg(t), e.C.Inti(1))
			}
			_, hi := typeRange(in.Type())
			return e.C.Sub(e.C.IntConst(hi), t)
		}
		return e.C.BvNot(t)
	case token.ARROW:
		e.bail("channel receive")
	}
	e.bail("unop %s", in.Op)
	return nil
}

// addressOf models uintptr(unsafe.Pointer(&a[i])) for an element of a scalar array object: an unknown base address
// per object plus the element offset. Distinct objects occupy disjoint address ranges (assumed pairwise for the
// objects whose addresses are taken), every object lies within the 47-bit user address space and does not wrap.
func (e *Exec) addressOf(st *State, p *PtrVal) *Term {
	c := e.C
	if len(p.Path) != 1 || p.Path[0].Idx == nil {
		return nil
	}
	av, ok := e.root(st, p.Obj).(*ArrayVal)
	if !ok || !av.Scalar {
		return nil
	}
	esz := int64(sizeOf(av.ElemT))
	base := c.Var(fmt.Sprintf("addr.base.%d", p.Obj), BV(64))
	size := c.Mul(av.Len, e.idx(esz))
	if e.addrObjs == nil {
		e.addrObjs = map[int]*Term{}
	}
	if _, seen := e.addrObjs[p.Obj]; !seen {
		e.addrObjs[p.Obj] = size
	}
	st.assume(c.ULe(c.BVu(4096, 64), base))
	st.assume(c.ULe(base, c.BVu(1<<47, 64)))
	st.assume(c.ULe(c.Add(base, size), c.BVu(1<<47, 64)))
	var ids []int
	for id := range e.addrObjs {
		ids = append(ids, id)
	}
	sort.Ints(ids)
	for _, id := range ids {
		sz := e.addrObjs[id]
		if id == p.Obj {
			continue
		}
		if _, live := st.Heap[id]; !live {
			continue
		}
		ob := c.Var(fmt.Sprintf("addr.base.%d", id), BV(64))
		st.assume(c.Or(c.ULe(c.Add(base, size), ob), c.ULe(c.Add(ob, sz), base)))
	}
	return c.Add(base, c.Mul(p.Path[0].Idx, e.idx(esz)))
}

func (e *Exec) convert(st *State, fr *Frame, in ssa.Instruction, x Val, from, to types.Type) Val {
	c := e.C
	switch {
	case isIntType(from) && isIntType(to):
		t := x.(*Term)
		if e.IntMode {
			lo, hi := typeRange(to)
			flo, fhi := typeRange(from)
			if flo.Cmp(lo) >= 0 && fhi.Cmp(hi) <= 0 {
				return t // widening: exact
			}
			if e.Exact {
				// narrowing or sign change: wrap exactly (Go semantics), no obligation: conversions are explicit
				return e.wrapInt(t, to)
			}
			return e.wrapInt(t, to)
		}
		tw := intWidth(to.Underlying().(*types.Basic))
		if t.S.W >= tw {
			return c.Extract(tw-1, 0, t)
		}
		if isSigned(from) {
			return c.SExt(t, tw)
		}
		return c.ZExt(t, tw)
	case isStringType(from) && isByteSlice(to):
		s := x.(*StringVal)
		av := &ArrayVal{ElemT: types.Typ[types.Uint8], Scalar: true, Elem: e.elemSort(types.Typ[types.Uint8]), C: s.C, Len: c.Add(s.Off, s.Len)}
		id := e.newObj(st, av, &ObjMeta{T: types.NewArray(types.Typ[types.Uint8], 0), Fresh: true})
		return &SliceVal{Obj: id, Off: s.Off, Len: s.Len, Cap: s.Len, Nil: c.False(), ElemT: to.Underlying().(*types.Slice).Elem()}
	case isByteSlice(from) && isStringType(to):
		s := x.(*SliceVal)
		if s.Obj == 0 {
			return e.strConst("")
		}
		av := e.sliceBacking(st, s)
		return &StringVal{C: av.C, Off: s.Off, Len: s.Len}
	case isStringType(from) && isRuneSlice(to):
		return e.stringToRunes(st, fr, in, x.(*StringVal), to)
	case isRuneSlice(from) && isStringType(to):
		return e.runesToString(st, fr, in, x.(*SliceVal))
	case isIntType(from) && isStringType(to):
		e.noteAbstract(st, "string(rune) conversion")
		return e.freshString(st, "runestr", 4)
	case isFloatType(from) || isFloatType(to):
		if isIntType(to) {
			if ov, ok := x.(*OpaqueVal); ok && strings.HasPrefix(ov.Name, "float:") {
				_ = ov
			}
			e.noteAbstract(st, "float conversion")
			v := c.Fresh("fconv", e.sortOf(to))
			st.assume(e.rangeFact(v, to))
			return v
		}
		return &OpaqueVal{T: to, Name: "float"}
	case types.Identical(from.Underlying(), to.Underlying()):
		return x
	}
	if _, ok := from.Underlying().(*types.Pointer); ok {
		return x // unsafe.Pointer conversions etc.
	}
	if b, ok := from.Underlying().(*types.Basic); ok && b.Kind() == types.UnsafePointer && isIntType(to) && !e.IntMode {
		if p, ok := x.(*PtrVal); ok && p.Obj != 0 {
			if a := e.addressOf(st, p); a != nil {
				return a
			}
		}
	}
	e.bail("conversion %s -> %s", from, to)
	return nil
}

func isByteSlice(t types.Type) bool {
	s, ok := t.Underlying().(*types.Slice)
	if !ok {
		return false
	}
	b, ok := s.Elem().Underlying().(*types.Basic)
	return ok && b.Kind() == types.Uint8
}
func isRuneSlice(t types.Type) bool {
	s, ok := t.Underlying().(*types.Slice)
	if !ok {
		return false
	}
	b, ok := s.Elem().Underlying().(*types.Basic)
	return ok && b.Kind() == types.Int32
}

// equal builds the equality predicate of two Go values of static type t.
func (e *Exec) equal(st *State, x, y Val, t types.Type) *Term {
	c := e.C
	switch a := x.(type) {
	case *Term:
		b, ok := y.(*Term)
		if !ok {
			e.bail("equal: %T vs %T", x, y)
		}
		return c.Eq(a, b)
	case *StringVal:
		return e.strEq(st, a, y.(*StringVal))
	case *PtrVal:
		switch b := y.(type) {
		case *PtrVal:
			if a.Obj != b.Obj {
				return c.False()
			}
			if a.Obj == 0 {
				return c.True()
			}
			if len(a.Path) != len(b.Path) {
				return c.False()
			}
			r := c.True()
			for i := range a.Path {
				if a.Path[i].Field != b.Path[i].Field {
					return c.False()
				}
				if a.Path[i].Idx != nil {
					r = c.And(r, c.Eq(a.Path[i].Idx, b.Path[i].Idx))
				}
			}
			return r
		case *IfaceVal:
			return e.equal(st, y, x, t)
		}
	case *SliceVal:
		// only comparison with nil is legal
		if b, ok := y.(*SliceVal); ok {
			if b.Obj == 0 && b.Nil.IsTrue() {
				return a.Nil
			}
			if a.Obj == 0 && a.Nil.IsTrue() {
				return b.Nil
			}
		}
		if b, ok := y.(*PtrVal); ok && b.Obj == 0 {
			return a.Nil
		}
	case *IfaceVal:
		switch b := y.(type) {
		case *IfaceVal:
			if b.IsNil.IsTrue() {
				return a.IsNil
			}
			if a.IsNil.IsTrue() {
				return b.IsNil
			}
			if a.Dyn != nil && b.Dyn != nil && !a.Opaque && !b.Opaque {
				if !types.Identical(a.Dyn, b.Dyn) {
					return c.And(a.IsNil, b.IsNil)
				}
				return c.Or(c.And(a.IsNil, b.IsNil), c.And(c.Not(a.IsNil), c.Not(b.IsNil), e.equal(st, a.V, b.V, a.Dyn)))
			}
			if a.Opaque && b.Opaque && a.ID != nil && b.ID != nil {
				return c.Or(c.And(a.IsNil, b.IsNil), c.And(c.Not(a.IsNil), c.Not(b.IsNil), c.Eq(a.ID, b.ID)))
			}
			e.noteAbstract(st, "interface comparison")
			return c.Fresh("ifaceeq", BoolS)
		case *PtrVal:
			if b.Obj == 0 && b.T == nil {
				return a.IsNil
			}
		}
	case *StructVal:
		b := y.(*StructVal)
		r := c.True()
		for i := range a.Fields {
			r = c.And(r, e.equal(st, e.force(st, a.Fields[i]), e.force(st, b.Fields[i]), a.T.Field(i).Type()))
		}
		return r
	case *ArrayVal:
		b := y.(*ArrayVal)
		if a.Scalar && a.Len.IsConst() {
			n := int(a.Len.C.Int64())
			r := c.True()
			for i := 0; i < n; i++ {
				r = c.And(r, c.Eq(e.sel(a.C, e.idx(int64(i))), e.sel(b.C, e.idx(int64(i)))))
			}
			return r
		}
	case *MapVal:
		if b, ok := y.(*MapVal); ok {
			if b.Obj == 0 {
				return c.Bool(a.Obj == 0)
			}
			if a.Obj == 0 {
				return c.Bool(b.Obj == 0)
			}
		}
	case *FuncVal:
		if b, ok := y.(*FuncVal); ok {
			if b.Fn == nil && b.Builtin == nil {
				return c.Bool(a.Fn == nil && a.Builtin == nil)
			}
		}
	case *TimeVal:
		b := y.(*TimeVal)
		return c.And(c.Eq(a.Sec, b.Sec), c.Eq(a.Nsec, b.Nsec))
	case *OpaqueVal:
		e.noteAbstract(st, "comparison of opaque values")
		return c.Fresh("opaqueeq", BoolS)
	}
	e.bail("equality on %T / %T", x, y)
	return nil
}

func (e *Exec) force(st *State, v Val) Val {
	if lz, ok := v.(*LazyVal); ok {
		return e.symVal(st, lz.T, lz.Name, 0)
	}
	return v
}

// strEq: equality of two strings.
func (e *Exec) strEq(st *State, a, b *StringVal) *Term {
	c := e.C
	if a.Len.IsConst() && b.Len.IsConst() {
		if a.Len.C.Cmp(b.Len.C) != 0 {
			return c.False()
		}
	}
	var n int64 = -1
	if a.Len.IsConst() {
		n = a.Len.C.Int64()
	} else if b.Len.IsConst() {
		n = b.Len.C.Int64()
	}
	if n >= 0 && n <= 128 {
		r := c.Eq(a.Len, b.Len)
		for i := int64(0); i < n; i++ {
			r = c.And(r, c.Eq(e.sel(a.C, c.Add(a.Off, e.idx(i))), e.sel(b.C, c.Add(b.Off, e.idx(i)))))
		}
		return r
	}
	k := c.Var(c.FreshName("k"), e.idxSort())
	body := c.Implies(e.inRange(k, a.Len), c.Eq(e.sel(a.C, c.Add(a.Off, k)), e.sel(b.C, c.Add(b.Off, k))))
	return c.And(c.Eq(a.Len, b.Len), c.Forall([]*Term{k}, body))
}

// inRange: 0 <= k < n in index sort
func (e *Exec) inRange(k, n *Term) *Term {
	if e.IntMode {
		return e.C.And(e.C.ILe(e.C.Inti(0), k), e.C.ILt(k, n))
	}
	return e.C.ULt(k, n)
}

func (e *Exec) strConcat(st *State, a, b *StringVal) *StringVal {
	c := e.C
	if a.Len.IsConst() && a.Len.C.Sign() == 0 {
		return b
	}
	if b.Len.IsConst() && b.Len.C.Sign() == 0 {
		return a
	}
	if sa, ok := concreteString(a); ok {
		if sb, ok := concreteString(b); ok {
			return e.strConst(sa + sb)
		}
	}
	if a.Len.IsConst() && b.Len.IsConst() && a.Len.C.IsInt64() && b.Len.C.IsInt64() && a.Len.C.Int64()+b.Len.C.Int64() <= 256 {
		// concrete lengths: the contents as a literal list of element terms
		var vals []*Term
		for i := int64(0); i < a.Len.C.Int64(); i++ {
			vals = append(vals, e.sel(a.C, c.Add(a.Off, e.idx(i))))
		}
		for i := int64(0); i < b.Len.C.Int64(); i++ {
			vals = append(vals, e.sel(b.C, c.Add(b.Off, e.idx(i))))
		}
		r := &StringVal{C: &ArrLit{Vals: vals, Rest: &ArrFill{Val: c.NumConst(big.NewInt(0), e.elemSort(types.Typ[types.Uint8]))}}, Off: e.idx(0), Len: e.idx(int64(len(vals)))}
		if a.Tag != nil && b.Tag != nil {
			r.Tag = &StrTag{Segs: append(append([]StrSeg{}, a.Tag.Segs...), b.Tag.Segs...)}
		} else if a.Tag != nil {
			r.Tag = &StrTag{Segs: append(append([]StrSeg{}, a.Tag.Segs...), StrSeg{Kind: "str", S: b})}
		} else if b.Tag != nil {
			r.Tag = &StrTag{Segs: append([]StrSeg{{Kind: "str", S: a}}, b.Tag.Segs...)}
		}
		return r
	}
	// new contents: a at [0,la), b at [la, la+lb)
	var base ArrC = &ArrFill{Val: c.NumConst(big.NewInt(0), e.elemSort(types.Typ[types.Uint8]))}
	var cont ArrC
	if a.Off.IsConst() && a.Off.C.Sign() == 0 {
		cont = &ArrSplice{Base: a.C, DstOff: a.Len, Src: b.C, SrcOff: b.Off, N: b.Len}
	} else {
		cont = &ArrSplice{Base: &ArrSplice{Base: base, DstOff: e.idx(0), Src: a.C, SrcOff: a.Off, N: a.Len}, DstOff: a.Len, Src: b.C, SrcOff: b.Off, N: b.Len}
	}
	r := &StringVal{C: cont, Off: e.idx(0), Len: c.Add(a.Len, b.Len)}
	if a.Tag != nil && b.Tag != nil {
		r.Tag = &StrTag{Segs: append(append([]StrSeg{}, a.Tag.Segs...), b.Tag.Segs...)}
	} else if a.Tag != nil {
		r.Tag = &StrTag{Segs: append(append([]StrSeg{}, a.Tag.Segs...), StrSeg{Kind: "str", S: b})}
	} else if b.Tag != nil {
		r.Tag = &StrTag{Segs: append([]StrSeg{{Kind: "str", S: a}}, b.Tag.Segs...)}
	}
	return r
}

func (e *Exec) freshString(st *State, name string, maxLen int64) *StringVal {
	nm := e.C.FreshName(name)
	l := e.C.Var(nm+".len", e.idxSort())
	st.assume(e.lenFact(l))
	if maxLen > 0 {
		st.assume(e.leIdx(l, e.idx(maxLen)))
	}
	return &StringVal{C: e.arrBase(nm, types.Typ[types.Uint8]), Off: e.idx(0), Len: l}
}

func (e *Exec) noteAbstract(st *State, what string) {
	st.Abstract = append(st.Abstract, what)
	e.Abstracted[what] = true
}

func (e *Exec) posOf(in ssa.Instruction) token.Position {
	p := in.Pos()
	if p == token.NoPos {
		// look for neighbouring position
		if b := in.Block(); b != nil {
			for _, o := range b.Instrs {
				if o.Pos() != token.NoPos {
					p = o.Pos()
					break
				}
			}
		}
	}
	return e.Prog.Fset.Position(p)
}

func (e *Exec) explicitPanic(st *State, fr *Frame, in *ssa.Panic) {
	e.oblige(st, fr, in, "panic", e.C.False())
	st.Dead = true
}

func (e *Exec) goStmt(st *State, fr *Frame, in *ssa.Go) {
	e.bail("go statement")
}

func debugf(format string, args ...interface{}) {
	if os.Getenv("GOVC_DEBUG") != "" {
		fmt.Fprintf(os.Stderr, format+"\n", args...)
	}
}

// arrBase creates an uninterpreted array of elements of Go type elemT; in int mode the element range
// is registered so that every query using the array carries the range axiom.
func (e *Exec) arrBase(name string, elemT types.Type) *ArrBase {
	es := e.elemSort(elemT)
	if e.IntMode && es.IsInt() && isIntType(elemT) {
		lo, hi := typeRange(elemT)
		e.C.appRange[name] = &ival{lo, hi}
	}
	return &ArrBase{Name: name, Elem: es}
}

// nonNeg: 0 <= t for index-sort terms (vacuous in bit-vector mode, where bounds are compared unsigned).
func (e *Exec) nonNeg(t *Term) *Term {
	if e.IntMode {
		return e.C.ILe(e.C.Inti(0), t)
	}
	return e.C.True()
}

// tryMergeTriangle if-converts `if c { list = append(list, lit...) }` triangles (the arm only allocates
// the variadic array and appends to a local slice of non-scalars): instead of forking, the join's phi
// becomes a conditional list whose new elements are present iff c. This keeps 16..32 consecutive flag
// tests linear instead of 2^n paths. Anything else falls back to path forking.
func (e *Exec) tryMergeTriangle(st *State, fr *Frame, blk *ssa.BasicBlock, c *Term) bool {
	t, f := blk.Succs[0], blk.Succs[1]
	cond := c
	arm, join := t, f
	if !(len(t.Preds) == 1 && len(t.Succs) == 1 && t.Succs[0] == f) {
		if len(f.Preds) == 1 && len(f.Succs) == 1 && f.Succs[0] == t {
			arm, join, cond = f, t, e.C.Not(c)
		} else {
			return false
		}
	}
	if li := e.loops(fr.Fn); li.headers[arm] {
		return false
	} else if li.headers[join] {
		// joining at a loop header is fine while the loop is being unrolled (concrete trip count, e.g. a range
		// over a literal map); not when the loop is cut at an invariant
		key := loopKey{fr.Fn, li.ordinal[join]}
		if e.cutHeaders[key] || e.W.hasLoopClauses(fr.Fn, li.ordinal[join]) || (fr.Cuts != nil && fr.Cuts[join] != nil) {
			return false
		}
	}
	// the arm may only contain: Alloc, IndexAddr, Store, Slice, append, MakeInterface, Jump, DebugRef
	for _, in := range arm.Instrs {
		switch x := in.(type) {
		case *ssa.Alloc, *ssa.IndexAddr, *ssa.Store, *ssa.Slice, *ssa.Jump, *ssa.DebugRef, *ssa.MakeInterface, *ssa.UnOp, *ssa.BinOp, *ssa.Convert, *ssa.ChangeType, *ssa.Extract, *ssa.Lookup:
			if u, ok := in.(*ssa.UnOp); ok && u.Op != token.MUL && u.Op != token.NOT && u.Op != token.SUB && u.Op != token.XOR {
				return false
			}
		case *ssa.Call:
			b, ok := x.Call.Value.(*ssa.Builtin)
			if !ok || b.Name() != "append" {
				return false
			}
		default:
			return false
		}
	}
	// phis of the join: only slices of non-scalars (lists) or scalars
	var phis []*ssa.Phi
	for _, in := range join.Instrs {
		ph, ok := in.(*ssa.Phi)
		if !ok {
			break
		}
		phis = append(phis, ph)
	}
	if len(phis) == 0 {
		return false
	}
	hasList := false
	for _, ph := range phis {
		if sl, ok := ph.Type().Underlying().(*types.Slice); ok && !isScalarType(sl.Elem()) {
			hasList = true
		} else if !isScalarType(ph.Type()) {
			return false
		}
	}
	if !hasList {
		// scalar-only join: merge when the arm is pure (arithmetic, conversions, loads), e.g.
		// `if bit == 1 { x |= mask }` inside a fully unrolled loop, which would otherwise double the paths
		for _, in := range arm.Instrs {
			switch in.(type) {
			case *ssa.BinOp, *ssa.UnOp, *ssa.Convert, *ssa.ChangeType, *ssa.Jump, *ssa.DebugRef:
			default:
				return false
			}
		}
	}
	// speculative execution of the arm
	stT := st.clone()
	frT := fr.clone()
	stT.assume(cond)
	nObl := len(e.Obls)
	ok := func() (ok bool) {
		defer func() {
			if r := recover(); r != nil {
				if _, isBail := r.(Bail); isBail {
					ok = false
					return
				}
				panic(r)
			}
		}()
		for _, in := range arm.Instrs {
			switch x := in.(type) {
			case *ssa.Jump, *ssa.DebugRef:
				continue
			case *ssa.Call:
				rs := e.call(stT, frT, x.Common(), x, x.Type())
				if len(rs) != 1 || rs[0].st != stT {
					return false
				}
				frT.Env[x] = rs[0].v
			default:
				if forks := e.simple(stT, frT, in); forks != nil || stT.Dead {
					return false
				}
			}
		}
		return true
	}()
	if !ok || stT.Dead {
		e.Obls = e.Obls[:nObl]
		return false
	}
	// merge phi values
	pa, pb := predIndex(join, arm), predIndex(join, blk)
	merged := make([]Val, len(phis))
	for k, ph := range phis {
		vT := e.val(stT, frT, ph.Edges[pa])
		vF := e.val(st, fr, ph.Edges[pb])
		switch a := vT.(type) {
		case *Term:
			b, okb := vF.(*Term)
			if !okb {
				e.Obls = e.Obls[:nObl]
				return false
			}
			merged[k] = e.C.Ite(cond, a, b)
		case *SliceVal:
			b, okb := vF.(*SliceVal)
			if !okb {
				e.Obls = e.Obls[:nObl]
				return false
			}
			m := e.mergeLists(st, stT, cond, a, b)
			if m == nil {
				e.Obls = e.Obls[:nObl]
				return false
			}
			merged[k] = m
		default:
			e.Obls = e.Obls[:nObl]
			return false
		}
	}
	// the arm's fresh objects stay reachable only through merged values; copy nothing else.
	for k, ph := range phis {
		fr.Env[ph] = merged[k]
	}
	e.mergedJoin = join
	e.mergedIdx = firstNonPhi(join)
	e.Merges++
	return true
}

// mergeLists: `taken` (in state stT) extends `base` (in state st) by appended elements; the result is a
// conditional list in st.
func (e *Exec) mergeLists(st, stT *State, cond *Term, taken, base *SliceVal) *SliceVal {
	c := e.C
	entries := func(s *State, v *SliceVal) ([]Val, []*Term, bool, bool) {
		if v.Obj == 0 || (v.Len.IsConst() && v.Len.C.Sign() == 0 && v.Obj != 0 && e.sliceBacking(s, v).List == nil) {
			return nil, nil, false, true
		}
		av := e.sliceBacking(s, v)
		if av.Scalar || av.Sym != "" || !v.Off.IsConst() || v.Off.C.Sign() != 0 {
			return nil, nil, false, false
		}
		n := len(av.List)
		if av.Conds == nil {
			if !v.Len.IsConst() || int(v.Len.C.Int64()) != n {
				if v.Len.IsConst() && int(v.Len.C.Int64()) <= n {
					n = int(v.Len.C.Int64())
				} else {
					return nil, nil, false, false
				}
			}
		}
		conds := av.Conds
		if conds == nil {
			conds = make([]*Term, n)
			for i := range conds {
				conds[i] = c.True()
			}
		}
		return av.List[:n], conds[:n], av.Unordered, true
	}
	bl, bc, bu, ok1 := entries(st, base)
	tl, tc, tu, ok2 := entries(stT, taken)
	if !ok1 || !ok2 || len(tl) < len(bl) {
		return nil
	}
	for i := range bl {
		if !sameVal(bl[i], tl[i]) || bc[i] != tc[i] {
			return nil
		}
	}
	list := append([]Val{}, bl...)
	conds := append([]*Term{}, bc...)
	for i := len(bl); i < len(tl); i++ {
		list = append(list, tl[i])
		conds = append(conds, c.And(cond, tc[i]))
	}
	ln := e.idx(0)
	for _, cd := range conds {
		ln = c.Add(ln, c.Ite(cd, e.idx(1), e.idx(0)))
	}
	av := &ArrayVal{ElemT: taken.ElemT, Len: ln, List: list, Conds: conds, Unordered: bu || tu}
	id := e.newObj(st, av, &ObjMeta{T: types.NewArray(taken.ElemT, 0), Fresh: true})
	return &SliceVal{Obj: id, Off: e.idx(0), Len: ln, Cap: ln, Nil: c.And(base.Nil, c.Not(cond)), ElemT: taken.ElemT}
}

func sameVal(a, b Val) bool {
	if a == b {
		return true
	}
	sa, ok1 := a.(*StringVal)
	sb, ok2 := b.(*StringVal)
	if ok1 && ok2 {
		x, c1 := concreteString(sa)
		y, c2 := concreteString(sb)
		return c1 && c2 && x == y
	}
	return false
}
