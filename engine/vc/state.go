package vc

import (
	"time"
	"fmt"
	"go/token"
	"go/types"
	"math/big"

	"golang.org/x/tools/go/ssa"
)

// Obligation: prove Goal under Assumptions.
type Obligation struct {
	Fn      string // function under verification (display name)
	Kind    string
	Label   string
	Name    string // Fn#Kind:Label
	Assume  []*Term
	Goal    *Term
	Pos     token.Position
	Props   []string // property ids the obligation serves ("" = safety)
	Cover   bool     // must be SAT instead of UNSAT
	Trivial bool     // folded to true syntactically
	Path    int      // path ordinal within function
	// Replay information
	Inputs *ReplayInfo
	// Result
	Status  string // "unsat","sat","unknown","timeout","trivial"
	Solver  string
	TimeS   float64
	Model   map[string]string
	Raw     string
	SMTHash string
	Closed  bool // decided by closed evaluation (no solver): Raw holds the reason
}

type ObjMeta struct {
	T        types.Type // root type
	Fresh    bool       // allocated during the verified activation
	Growable bool
	Name     string
	Param    bool
}

type Frame struct {
	Fn       *ssa.Function
	Env      map[ssa.Value]Val
	Defers   []*ssa.Defer
	DeferEnv []map[ssa.Value]Val
	Depth    int
	Cuts     map[*ssa.BasicBlock]*CutInfo
	Iter     map[*ssa.BasicBlock]int
	Panicked bool
	Region   map[*ssa.BasicBlock]bool
}

// State is one symbolic path.
type State struct {
	PC       []*Term
	Heap     map[int]Val
	Meta     map[int]*ObjMeta // shared across forks until modified (copy on write by clone)
	Maps     map[int]*MapState
	Record   *WriteRec // non-nil: dry-run mode, no obligations
	Dead     bool
	Abstract []string // abstractions applied on this path (unknown calls)
	Alloc    *Term    // bytes allocated so far on this path (index sort)
	PathID   int
	Lock     map[int]int // obj id of mutex -> 0 free, 1 rlock, 2 wlock
	Ghost    map[string]Val
	StrFacts []*StrFact // shapes of strings established by successful regexp matches on this path
	InMapRange bool // an iteration over a map has started on this path (element order of lists built since is arbitrary)
}

type WriteRec struct {
	Objs  map[int]bool
	Paths map[int]map[string][]PathElem // written field paths (prefix up to the first array index)
}

func (w *WriteRec) note(obj int, path []PathElem) {
	w.Objs[obj] = true
	if w.Paths == nil {
		w.Paths = map[int]map[string][]PathElem{}
	}
	var pre []PathElem
	key := ""
	for _, pe := range path {
		if pe.Idx != nil {
			break
		}
		pre = append(pre, pe)
		key += fmt.Sprintf(".%d", pe.Field)
	}
	if w.Paths[obj] == nil {
		w.Paths[obj] = map[string][]PathElem{}
	}
	w.Paths[obj][key] = pre
}

func (s *State) clone() *State {
	n := &State{PC: s.PC[:len(s.PC):len(s.PC)], Heap: make(map[int]Val, len(s.Heap)), Meta: s.Meta, Maps: make(map[int]*MapState, len(s.Maps)), Record: s.Record, Alloc: s.Alloc, InMapRange: s.InMapRange, StrFacts: s.StrFacts[:len(s.StrFacts):len(s.StrFacts)]}
	for k, v := range s.Heap {
		n.Heap[k] = v
	}
	for k, v := range s.Maps {
		n.Maps[k] = v
	}
	n.Abstract = s.Abstract[:len(s.Abstract):len(s.Abstract)]
	if s.Lock != nil {
		n.Lock = map[int]int{}
		for k, v := range s.Lock {
			n.Lock[k] = v
		}
	}
	if s.Ghost != nil {
		n.Ghost = map[string]Val{}
		for k, v := range s.Ghost {
			n.Ghost[k] = v
		}
	}
	return n
}

func (s *State) assume(t *Term) {
	if t.IsTrue() {
		return
	}
	if t.IsFalse() {
		s.Dead = true
	}
	if t.Op == "and" {
		// conjuncts are kept separately so that literal and `x == constant` facts are visible to propagation
		s.PC = append(s.PC, t.Args...)
		return
	}
	s.PC = append(s.PC, t)
}

func (f *Frame) clone() *Frame {
	n := &Frame{Fn: f.Fn, Env: make(map[ssa.Value]Val, len(f.Env)+8), Depth: f.Depth, Panicked: f.Panicked, Region: f.Region}
	for k, v := range f.Env {
		n.Env[k] = v
	}
	n.Defers = f.Defers[:len(f.Defers):len(f.Defers)]
	n.DeferEnv = f.DeferEnv[:len(f.DeferEnv):len(f.DeferEnv)]
	if f.Cuts != nil {
		n.Cuts = map[*ssa.BasicBlock]*CutInfo{}
		for k, v := range f.Cuts {
			n.Cuts[k] = v
		}
	}
	if f.Iter != nil {
		n.Iter = map[*ssa.BasicBlock]int{}
		for k, v := range f.Iter {
			n.Iter[k] = v
		}
	}
	return n
}

// Outcome of executing a function body on one path.
type Outcome struct {
	St      *State
	Results []Val
	Panic   bool // path ended in an (allowed) explicit panic
}

// Bail is thrown (panic) when the function leaves the supported subset.
type Bail struct{ Reason string }

func (e *Exec) bail(format string, args ...interface{}) {
	panic(Bail{Reason: fmt.Sprintf(format, args...)})
}

// Exec is the per-function-under-verification engine.
type Exec struct {
	C       *Ctx
	Prog    *ssa.Program
	W       *World
	IntMode bool
	Exact   bool
	Root    *ssa.Function
	RootName string
	Obls    []*Obligation
	nextObj int
	metaAll map[int]*ObjMeta
	labelCount map[string]int
	instrLabel map[ssa.Instruction]string
	Inlined  map[string]bool
	RootCt        *Contract
	UsedContracts map[string]bool
	UsedIntrinsics map[string]bool
	Abstracted map[string]bool
	Notes     []string
	paths     int
	Steps     int
	MaxSteps  int
	CurProps  []string
	arrFnID   int
	SafetyOnly bool // emit only safety obligations
	NoSafety  bool
	MaxPaths  int
	LoopInfo  []string
	houdiniQueries int
	Replay    *ReplayInfo
	loopsCache map[*ssa.Function]*loopInfo
	stack      []*ssa.Function
	symExit    map[*ssa.BasicBlock]bool
	cutHeaders map[loopKey]bool
	globalIDs  map[*ssa.Global]int
	GlobalInit func(e *Exec, st *State, g *ssa.Global) (Val, bool)
	preState   *State
	forcedInt  bool
	addrObjs   map[int]*Term // objects whose address has been taken as a uintptr (object id -> size in bytes)
	deadCands  map[loopKey]map[string]bool
	mergedJoin *ssa.BasicBlock
	mergedIdx  int
	Merges     int
	inits      map[*ssa.Package]*initResult
	initRunning *ssa.Package
	rootEnv    *SpecEnv
	prune      bool               // second attempt after a path explosion: branches are checked for feasibility
	pruneStart time.Time
	deadline   time.Time // symbolic execution of one function gives up (a lost proof, reported) after GenBudget
	forks      int                // symbolic branches taken so far in this function
	regexObjs  map[int]string     // compiled regular expressions (object id -> pattern)
	cryptoObjs map[int]*cryptoObj // modelled cipher / hash objects (object id -> immutable part)
}

func (e *Exec) idxSort() Sort {
	if e.IntMode {
		return IntS
	}
	return BV(64)
}

func (e *Exec) idx(v int64) *Term {
	if e.IntMode {
		return e.C.Inti(v)
	}
	return e.C.BVConst(big.NewInt(v), 64)
}

// sortOf maps a scalar Go type to an SMT sort.
func (e *Exec) sortOf(t types.Type) Sort {
	if isBoolType(t) {
		return BoolS
	}
	if e.IntMode {
		return IntS
	}
	b := t.Underlying().(*types.Basic)
	return BV(intWidth(b))
}

func (e *Exec) newObj(st *State, root Val, meta *ObjMeta) int {
	e.nextObj++
	id := e.nextObj
	st.Heap[id] = root
	e.metaAll[id] = meta
	return id
}

func (e *Exec) meta(id int) *ObjMeta { return e.metaAll[id] }

// rangeFact returns the constraint that an Int-mode term lies in its type's range.
func (e *Exec) rangeFact(t *Term, ty types.Type) *Term {
	if !e.IntMode || !isIntType(ty) {
		return e.C.True()
	}
	lo, hi := typeRange(ty)
	if t.Op == "var" {
		e.C.setIv(t, lo, hi)
	}
	return e.C.And(e.C.ILe(e.C.IntConst(lo), t), e.C.ILe(t, e.C.IntConst(hi)))
}

// Lengths of objects the verified code receives or obtains from abstracted calls are assumed to be at most 2^40 (one
// TiB: no such object exists on the machines this library runs on); an allocation may ask for up to 2^48 elements
// (the Go runtime's limit on linux/amd64). The gap lets sizes computed as small sums or multiples of input lengths
// pass the allocation check, which a size derived from attacker-controlled *values* does not.
const maxLenBits = 40
const allocLimitBits = 48

// lenFact: 0 <= l <= 2^maxLenBits
func (e *Exec) lenFact(l *Term) *Term {
	if e.IntMode {
		if l.Op == "var" {
			e.C.setIv(l, big.NewInt(0), new(big.Int).Lsh(big.NewInt(1), maxLenBits))
		}
		return e.C.And(e.C.ILe(e.C.Inti(0), l), e.C.ILe(l, e.C.IntConst(new(big.Int).Lsh(big.NewInt(1), maxLenBits))))
	}
	return e.C.ULe(l, e.C.BVConst(new(big.Int).Lsh(big.NewInt(1), maxLenBits), 64))
}
