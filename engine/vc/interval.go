package vc

import "math/big"

// Interval analysis over Int-sorted terms (used in int mode to elide wrap-around encodings).
type ival struct{ lo, hi *big.Int } // nil bound = unbounded

func (c *Ctx) setIv(t *Term, lo, hi *big.Int) {
	if c.ivs == nil {
		c.ivs = map[int]*ival{}
	}
	c.ivs[t.id] = &ival{lo, hi}
}

func (c *Ctx) ivOf(t *Term) *ival {
	if c.ivs == nil {
		c.ivs = map[int]*ival{}
	}
	if v, ok := c.ivs[t.id]; ok {
		return v
	}
	r := c.ivCompute(t)
	c.ivs[t.id] = r
	return r
}

func addB(a, b *big.Int) *big.Int {
	if a == nil || b == nil {
		return nil
	}
	return new(big.Int).Add(a, b)
}
func subB(a, b *big.Int) *big.Int {
	if a == nil || b == nil {
		return nil
	}
	return new(big.Int).Sub(a, b)
}
func minB(a, b *big.Int) *big.Int {
	if a == nil || b == nil {
		return nil
	}
	if a.Cmp(b) < 0 {
		return a
	}
	return b
}
func maxB(a, b *big.Int) *big.Int {
	if a == nil || b == nil {
		return nil
	}
	if a.Cmp(b) > 0 {
		return a
	}
	return b
}

func (c *Ctx) ivCompute(t *Term) *ival {
	if !t.S.IsInt() {
		return &ival{}
	}
	switch t.Op {
	case "const":
		return &ival{t.C, t.C}
	case "+":
		a, b := c.ivOf(t.Args[0]), c.ivOf(t.Args[1])
		return &ival{addB(a.lo, b.lo), addB(a.hi, b.hi)}
	case "-":
		a, b := c.ivOf(t.Args[0]), c.ivOf(t.Args[1])
		return &ival{subB(a.lo, b.hi), subB(a.hi, b.lo)}
	case "*":
		a, b := c.ivOf(t.Args[0]), c.ivOf(t.Args[1])
		if a.lo != nil && a.hi != nil && b.lo != nil && b.hi != nil {
			ps := []*big.Int{new(big.Int).Mul(a.lo, b.lo), new(big.Int).Mul(a.lo, b.hi), new(big.Int).Mul(a.hi, b.lo), new(big.Int).Mul(a.hi, b.hi)}
			lo, hi := ps[0], ps[0]
			for _, p := range ps[1:] {
				lo, hi = minB(lo, p), maxB(hi, p)
			}
			return &ival{lo, hi}
		}
	case "div":
		a, b := c.ivOf(t.Args[0]), c.ivOf(t.Args[1])
		if b.lo != nil && b.hi != nil && b.lo.Cmp(b.hi) == 0 && b.lo.Sign() > 0 && a.lo != nil && a.hi != nil {
			lo, _ := new(big.Int).DivMod(a.lo, b.lo, new(big.Int))
			hi, _ := new(big.Int).DivMod(a.hi, b.lo, new(big.Int))
			return &ival{lo, hi}
		}
	case "mod":
		b := c.ivOf(t.Args[1])
		if b.lo != nil && b.hi != nil && b.lo.Cmp(b.hi) == 0 && b.lo.Sign() > 0 {
			a := c.ivOf(t.Args[0])
			hi := new(big.Int).Sub(b.lo, big.NewInt(1))
			if a.lo != nil && a.hi != nil && a.lo.Sign() >= 0 && a.hi.Cmp(hi) <= 0 {
				return a
			}
			return &ival{big.NewInt(0), hi}
		}
	case "ite":
		a, b := c.ivOf(t.Args[1]), c.ivOf(t.Args[2])
		return &ival{minB(a.lo, b.lo), maxB(a.hi, b.hi)}
	case "app":
		if r, ok := c.appRange[t.Name]; ok {
			return r
		}
	}
	return &ival{}
}

// within reports whether the interval of t is contained in [lo, hi].
func (c *Ctx) within(t *Term, lo, hi *big.Int) bool {
	v := c.ivOf(t)
	return v.lo != nil && v.hi != nil && v.lo.Cmp(lo) >= 0 && v.hi.Cmp(hi) <= 0
}
