package vc

import (
	"fmt"
	"go/token"
	"go/types"
	"math/big"
	"os"
	"strings"

	"golang.org/x/tools/go/ssa"
)

var fileLines = map[string][]string{}

func sourceLine(pos token.Position) string {
	if !pos.IsValid() {
		return ""
	}
	ls, ok := fileLines[pos.Filename]
	if !ok {
		b, err := os.ReadFile(pos.Filename)
		if err == nil {
			ls = strings.Split(string(b), "\n")
		}
		fileLines[pos.Filename] = ls
	}
	if pos.Line-1 < len(ls) && pos.Line >= 1 {
		return strings.TrimSpace(ls[pos.Line-1])
	}
	return ""
}

func fnDisplay(fn *ssa.Function) string {
	s := fn.String()
	s = strings.ReplaceAll(s, "github.com/TheManticoreProject/Manticore/", "")
	return s
}

// labelFor gives a stable label to an instruction: trimmed source line + ordinal among
// instructions of the same function with the same line text.
func (e *Exec) labelFor(in ssa.Instruction) string {
	if l, ok := e.instrLabel[in]; ok {
		return l
	}
	fn := in.Parent()
	counts := map[string]int{}
	for _, b := range fn.Blocks {
		for _, i := range b.Instrs {
			switch i.(type) {
			case *ssa.DebugRef, *ssa.Phi, *ssa.Jump, *ssa.If, *ssa.Return:
				continue
			}
			txt := sourceLine(e.posOf(i))
			if len(txt) > 70 {
				txt = txt[:70]
			}
			if idx := strings.Index(txt, "//"); idx > 0 {
				txt = strings.TrimSpace(txt[:idx])
			}
			key := fmt.Sprintf("%T|%s", i, txt)
			counts[key]++
			op := strings.TrimPrefix(fmt.Sprintf("%T", i), "*ssa.")
			e.instrLabel[i] = fmt.Sprintf("%s «%s» %s#%d", fnShort(fn), txt, op, counts[key])
		}
	}
	if l, ok := e.instrLabel[in]; ok {
		return l
	}
	return fmt.Sprintf("%s «?»", fnShort(fn))
}

func fnShort(fn *ssa.Function) string {
	s := fnDisplay(fn)
	// strip package path, keep last element + name
	if i := strings.LastIndex(s, "/"); i >= 0 {
		// keep a leading "(*" if present
		pre := ""
		if strings.HasPrefix(s, "(*") {
			pre = "(*"
		} else if strings.HasPrefix(s, "(") {
			pre = "("
		}
		s = pre + s[i+1:]
	}
	return s
}

// oblige emits a proof obligation for goal at instruction in (which may be nil for contract-level obligations).
func (e *Exec) oblige(st *State, fr *Frame, in ssa.Instruction, kind string, goal *Term) {
	label := ""
	var pos token.Position
	if in != nil {
		label = e.labelFor(in)
		pos = e.posOf(in)
	}
	e.obligeL(st, kind, label, pos, goal, nil)
}

func isSafetyKind(k string) bool {
	switch k {
	case "idx", "slice", "nil", "div", "shift", "makeslice", "typeassert", "panic", "conv-panic", "alloc", "dec", "mapnil":
		return true
	}
	return false
}

func (e *Exec) obligeL(st *State, kind, label string, pos token.Position, goal *Term, props []string) {
	if st.Dead {
		return
	}
	if st.Record != nil {
		st.assume(goal)
		return
	}
	if e.NoSafety && isSafetyKind(kind) {
		st.assume(goal)
		return
	}
	if e.SafetyOnly && !isSafetyKind(kind) {
		st.assume(goal)
		return
	}
	o := &Obligation{Fn: e.RootName, Kind: kind, Label: label, Pos: pos, Props: props, Path: st.PathID}
	o.Name = fmt.Sprintf("%s#%s:%s", e.RootName, kind, label)
	if !goal.IsTrue() {
		// equality propagation: facts `x == constant` of the path condition are substituted into the goal
		// (switch dispatch makes most goals fold to true without a solver call)
		if m := constFacts(st.PC); len(m) > 0 {
			if g2 := e.C.Subst(goal, m); g2.IsTrue() {
				goal = g2
			}
		}
	}
	if goal.IsTrue() {
		o.Trivial = true
		o.Status = "trivial"
		o.Goal = goal
		e.Obls = append(e.Obls, o)
		return
	}
	o.Assume, o.Goal = e.propagateConsts(st.PC, goal)
	if o.Goal.IsTrue() {
		o.Trivial = true
		o.Status = "trivial"
		e.Obls = append(e.Obls, o)
		st.assume(goal)
		return
	}
	o.Inputs = e.Replay
	e.Obls = append(e.Obls, o)
	st.assume(goal)
}

// propagateConsts rewrites a query (assumptions, goal) by substituting the `variable == constant` facts
// among the assumptions into everything else, to a fixpoint (bounded). The defining facts are kept, so the
// rewritten query is equivalent to the original one; it only spares the solver the propagation.
func (e *Exec) propagateConsts(pc []*Term, goal *Term) ([]*Term, *Term) {
	cur := pc[:len(pc):len(pc)]
	all := map[*Term]*Term{}
	for round := 0; round < 6; round++ {
		m := constFacts(cur)
		fresh := map[*Term]*Term{}
		for k, v := range m {
			if _, ok := all[k]; !ok {
				fresh[k] = v
				all[k] = v
			}
		}
		if len(fresh) == 0 {
			break
		}
		next := make([]*Term, 0, len(cur)+len(fresh))
		seen := map[*Term]bool{}
		memo := map[*Term]*Term{}
		for _, f := range cur {
			g := e.C.SubstMemo(f, fresh, memo)
			if g.IsTrue() || seen[g] {
				continue
			}
			seen[g] = true
			next = append(next, g)
		}
		for k, v := range fresh {
			var d *Term
			if k.S.IsBool() {
				if v == trueTerm {
					d = k
				} else {
					d = e.C.Not(k)
				}
			} else {
				d = e.C.Eq(k, v)
			}
			next = append(next, d)
		}
		cur = next
		goal = e.C.SubstMemo(goal, fresh, memo)
	}
	return cur, goal
}

// cover emits a must-be-satisfiable check.
func (e *Exec) cover(st *State, label string) {
	if st.Record != nil || st.Dead {
		return
	}
	o := &Obligation{Fn: e.RootName, Kind: "cover", Label: label, Cover: true, Path: st.PathID}
	o.Name = fmt.Sprintf("%s#cover:%s", e.RootName, label)
	o.Assume = st.PC[:len(st.PC):len(st.PC)]
	o.Goal = e.C.True()
	e.Obls = append(e.Obls, o)
}

// accountAlloc tracks allocation volume (bytes) along a path and, when a budget is configured,
// emits an obligation that a single allocation is within budget.
func (e *Exec) accountAlloc(st *State, fr *Frame, in ssa.Instruction, elem types.Type, n *Term) {
	if e.W == nil || e.W.AllocBudget == nil || n == nil || e.IntMode {
		return
	}
	if n.IsConst() {
		return
	}
	sz := sizeOf(elem)
	bytes := e.C.Mul(n, e.idx(sz))
	budget := e.W.AllocBudget(e, st)
	if budget == nil {
		return
	}
	// n <= 2^48 guaranteed by makeslice obligation; product cannot wrap for sz < 2^15
	e.oblige(st, fr, in, "alloc", e.C.ULe(bytes, budget))
}

func sizeOf(t types.Type) int64 {
	switch u := t.Underlying().(type) {
	case *types.Basic:
		w := intWidth(u)
		if w > 0 {
			return int64(w / 8)
		}
		if u.Info()&types.IsString != 0 {
			return 16
		}
		return 8
	case *types.Struct:
		var s int64
		for i := 0; i < u.NumFields(); i++ {
			s += sizeOf(u.Field(i).Type())
		}
		if s == 0 {
			s = 1
		}
		return s
	case *types.Array:
		return u.Len() * sizeOf(u.Elem())
	case *types.Slice:
		return 24
	case *types.Interface:
		return 16
	}
	return 8
}

// frameCheck: a store to a non-fresh object must be inside the modifies clause (when one is given).
func (e *Exec) frameCheck(st *State, p *PtrVal) {
	if e.W == nil || e.W.FrameCheck == nil {
		return
	}
	e.W.FrameCheck(e, st, p)
}

// ---- symbolic values of a type ----

func (e *Exec) symVal(st *State, t types.Type, name string, depth int) Val {
	c := e.C
	if isTimeType(t) && !e.IntMode {
		return &OpaqueVal{T: t, Name: name}
	}
	if isTimeType(t) {
		sec := c.Var(name+".sec", IntS)
		ns := c.Var(name+".nsec", IntS)
		st.assume(c.And(c.ILe(c.Inti(0), ns), c.ILt(ns, c.Inti(1000000000))))
		return &TimeVal{Sec: sec, Nsec: ns}
	}
	switch u := t.Underlying().(type) {
	case *types.Basic:
		switch {
		case isBoolType(t):
			return c.Var(name, BoolS)
		case isIntType(t) || u.Kind() == types.UnsafePointer:
			v := c.Var(name, e.sortOf(t))
			st.assume(e.rangeFact(v, t))
			return v
		case isStringType(t):
			l := c.Var(name+".len", e.idxSort())
			st.assume(e.lenFact(l))
			return &StringVal{C: e.arrBase(name+".arr", types.Typ[types.Uint8]), Off: e.idx(0), Len: l}
		case isFloatType(t):
			return &OpaqueVal{T: t, Name: name}
		}
	case *types.Pointer:
		id := e.newObj(st, &LazyVal{T: u.Elem(), Name: name + "."}, &ObjMeta{T: u.Elem(), Name: name, Param: true})
		return &PtrVal{Obj: id, T: u.Elem()}
	case *types.Slice:
		return e.symSlice(st, u.Elem(), name)
	case *types.Struct:
		sv := &StructVal{T: u, Named: t, Fields: make([]Val, u.NumFields())}
		for i := 0; i < u.NumFields(); i++ {
			f := u.Field(i)
			fname := name + f.Name()
			if !strings.HasSuffix(name, ".") && name != "" {
				fname = name + "." + f.Name()
			}
			ft := f.Type()
			switch ft.Underlying().(type) {
			case *types.Pointer, *types.Interface, *types.Slice, *types.Map, *types.Struct, *types.Array:
				sv.Fields[i] = &LazyVal{T: ft, Name: fname}
			default:
				sv.Fields[i] = e.symVal(st, ft, fname, depth+1)
			}
		}
		return sv
	case *types.Array:
		n := u.Len()
		if isScalarType(u.Elem()) {
			es := e.elemSort(u.Elem())
			return &ArrayVal{ElemT: u.Elem(), Scalar: true, Elem: es, C: e.arrBase(name+".arr", u.Elem()), Len: e.idx(n)}
		}
		if n > 256 {
			e.bail("symbolic array of %d non-scalars", n)
		}
		av := &ArrayVal{ElemT: u.Elem(), Len: e.idx(n), List: make([]Val, n)}
		for i := range av.List {
			av.List[i] = &LazyVal{T: u.Elem(), Name: fmt.Sprintf("%s[%d]", name, i)}
		}
		return av
	case *types.Interface:
		if hint := e.W.ifaceHint(name, t); hint != nil {
			v := e.symVal(st, hint, name, depth+1)
			return &IfaceVal{Dyn: hint, V: v, IsNil: c.False()}
		}
		return &IfaceVal{Opaque: true, IsNil: c.Var(name+".isnil", BoolS), ID: c.Var(name+".id", BV(64))}
	case *types.Map:
		e.nextObj++
		id := e.nextObj
		st.Maps[id] = &MapState{KeyT: u.Key(), ValT: u.Elem(), Abstract: true, Name: name}
		e.metaAll[id] = &ObjMeta{T: t, Name: name, Param: true}
		return &MapVal{Obj: id}
	case *types.Signature:
		return &OpaqueVal{T: t, Name: name}
	case *types.Chan:
		return &OpaqueVal{T: t, Name: name}
	}
	e.bail("symbolic value of type %s", t)
	return nil
}

// symSlice: fresh slice value backed by a fresh array.
func (e *Exec) symSlice(st *State, elem types.Type, name string) Val {
	c := e.C
	if !isScalarType(elem) {
		n, ok := e.W.lenHint(name)
		if !ok {
			return e.symList(st, elem, name)
		}
		av := &ArrayVal{ElemT: elem, Len: e.idx(int64(n)), List: make([]Val, n)}
		for i := range av.List {
			av.List[i] = &LazyVal{T: elem, Name: fmt.Sprintf("%s[%d]", name, i)}
		}
		id := e.newObj(st, av, &ObjMeta{T: types.NewArray(elem, int64(n)), Name: name, Param: true})
		return &SliceVal{Obj: id, Off: e.idx(0), Len: e.idx(int64(n)), Cap: e.idx(int64(n)), Nil: c.Bool(false), ElemT: elem}
	}
	l := c.Var(name+".len", e.idxSort())
	cp := c.Var(name+".cap", e.idxSort())
	if n, ok := e.W.lenHint(name); ok {
		l = e.idx(int64(n))
	}
	st.assume(e.lenFact(l))
	st.assume(e.lenFact(cp))
	st.assume(e.leIdx(l, cp))
	es := e.elemSort(elem)
	av := &ArrayVal{ElemT: elem, Scalar: true, Elem: es, C: e.arrBase(name+".arr", elem), Len: cp}
	id := e.newObj(st, av, &ObjMeta{T: types.NewArray(elem, 0), Name: name, Param: true})
	nilc := c.Var(name+".isnil", BoolS)
	st.assume(c.Implies(nilc, c.Eq(cp, e.idx(0))))
	return &SliceVal{Obj: id, Off: e.idx(0), Len: l, Cap: cp, Nil: nilc, ElemT: elem}
}

// symList: slice of non-scalars with symbolic length; elements are symbolic values named by (list, index term).
func (e *Exec) symList(st *State, elem types.Type, name string) *SliceVal {
	c := e.C
	l := c.Var(name+".len", e.idxSort())
	st.assume(e.lenFact(l))
	av := &ArrayVal{ElemT: elem, Len: l, Sym: name}
	id := e.newObj(st, av, &ObjMeta{T: types.NewArray(elem, 0), Name: name, Param: true})
	nilc := c.Var(name+".isnil", BoolS)
	st.assume(c.Implies(nilc, c.Eq(l, e.idx(0))))
	return &SliceVal{Obj: id, Off: e.idx(0), Len: l, Cap: l, Nil: nilc, ElemT: elem}
}

// havoc returns a fresh unconstrained value shaped like v (same type t).
func (e *Exec) havocVal(st *State, v Val, t types.Type, name string) Val {
	c := e.C
	switch x := v.(type) {
	case *Term:
		nv := c.Fresh(name, x.S)
		if isIntType(t) {
			st.assume(e.rangeFact(nv, t))
		}
		return nv
	case *StringVal:
		return e.freshString(st, name, 0)
	case *SliceVal:
		if x.Obj == 0 {
			return e.freshSliceObj(st, x.ElemT, name)
		}
		off := c.Fresh(name+".off", e.idxSort())
		l := c.Fresh(name+".len", e.idxSort())
		cp := c.Fresh(name+".cap", e.idxSort())
		st.assume(e.lenFact(off))
		st.assume(e.lenFact(l))
		st.assume(e.lenFact(cp))
		st.assume(e.leIdx(l, cp))
		if av := e.sliceBacking(st, x); av != nil {
			st.assume(e.leIdx(c.Add(off, cp), av.Len))
		}
		return &SliceVal{Obj: x.Obj, Path: x.Path, Off: off, Len: l, Cap: cp, Nil: c.Fresh(name+".isnil", BoolS), ElemT: x.ElemT}
	case *StructVal:
		n := &StructVal{T: x.T, Named: x.Named, Fields: make([]Val, len(x.Fields))}
		for i := range x.Fields {
			n.Fields[i] = e.havocVal(st, x.Fields[i], x.T.Field(i).Type(), name+"."+x.T.Field(i).Name())
		}
		return n
	case *ArrayVal:
		if x.Scalar {
			return &ArrayVal{ElemT: x.ElemT, Scalar: true, Elem: x.Elem, C: e.arrBase(c.FreshName(name+".arr"), x.ElemT), Len: x.Len}
		}
		if x.Sym != "" || x.List == nil {
			return &ArrayVal{ElemT: x.ElemT, Len: x.Len, Sym: c.FreshName(name)}
		}
		n := &ArrayVal{ElemT: x.ElemT, Len: x.Len, List: make([]Val, len(x.List))}
		for i := range x.List {
			n.List[i] = e.havocVal(st, x.List[i], x.ElemT, fmt.Sprintf("%s[%d]", name, i))
		}
		return n
	case *IfaceVal:
		if x.Dyn != nil && !x.Opaque && x.IsNil.IsFalse() {
			return &IfaceVal{Dyn: x.Dyn, V: e.havocVal(st, x.V, x.Dyn, name), IsNil: x.IsNil}
		}
		return &IfaceVal{Opaque: true, IsNil: c.Fresh(name+".isnil", BoolS), ID: c.Fresh(name+".id", BV(64))}
	case *LazyVal:
		return &LazyVal{T: x.T, Name: c.FreshName(x.Name)}
	case *TimeVal:
		sec := c.Fresh(name+".sec", IntS)
		ns := c.Fresh(name+".nsec", IntS)
		st.assume(c.And(c.ILe(c.Inti(0), ns), c.ILt(ns, c.Inti(1000000000))))
		return &TimeVal{Sec: sec, Nsec: ns}
	case *PtrVal, *FuncVal, *MapVal, *OpaqueVal, *IterVal:
		return v
	case TupleVal:
		return v
	case nil:
		return nil
	}
	e.bail("havoc of %T", v)
	return nil
}

func (e *Exec) freshSliceObj(st *State, elem types.Type, name string) *SliceVal {
	c := e.C
	if !isScalarType(elem) {
		s := e.symList(st, elem, c.FreshName(name))
		e.metaAll[s.Obj].Param = false
		e.metaAll[s.Obj].Fresh = true
		return s
	}
	nm := c.FreshName(name)
	l := c.Var(nm+".len", e.idxSort())
	cp := c.Var(nm+".cap", e.idxSort())
	st.assume(e.lenFact(l))
	st.assume(e.lenFact(cp))
	st.assume(e.leIdx(l, cp))
	es := e.elemSort(elem)
	av := &ArrayVal{ElemT: elem, Scalar: true, Elem: es, C: e.arrBase(nm+".arr", elem), Len: cp}
	id := e.newObj(st, av, &ObjMeta{T: types.NewArray(elem, 0), Fresh: true, Growable: true, Name: nm})
	return &SliceVal{Obj: id, Off: e.idx(0), Len: l, Cap: cp, Nil: c.Var(nm+".isnil", BoolS), ElemT: elem}
}

func bigi(v int64) *big.Int { return big.NewInt(v) }

// constFacts collects `var == const` equalities from a path condition.
func constFacts(pc []*Term) map[*Term]*Term {
	var m map[*Term]*Term
	var flat []*Term
	var fl func(f *Term)
	fl = func(f *Term) {
		if f.Op == "and" {
			for _, a := range f.Args {
				fl(a)
			}
			return
		}
		flat = append(flat, f)
	}
	for _, f := range pc {
		fl(f)
	}
	for _, f := range flat {
		if f.Op == "var" && f.S.IsBool() {
			if m == nil {
				m = map[*Term]*Term{}
			}
			m[f] = trueTerm
			continue
		}
		if f.Op == "not" && f.Args[0].Op == "var" {
			if m == nil {
				m = map[*Term]*Term{}
			}
			m[f.Args[0]] = falseTerm
			continue
		}
		if f.Op == "=" && len(f.Args) == 2 {
			a, b := f.Args[0], f.Args[1]
			if isGroundCell(b) && a.IsConst() {
				a, b = b, a
			}
			if isGroundCell(a) && b.IsConst() {
				if m == nil {
					m = map[*Term]*Term{}
				}
				m[a] = b
			}
		}
	}
	return m
}

// isGroundCell: a variable, or an uninterpreted array/function applied to constants (an input cell such as b[1]).
func isGroundCell(t *Term) bool {
	if t.Op == "var" {
		return true
	}
	if t.Op == "app" && len(t.Args) > 0 {
		for _, a := range t.Args {
			if !a.IsConst() {
				return false
			}
		}
		return true
	}
	return false
}

var trueTerm, falseTerm *Term
