package vc

import (
	"go/types"
	"math/big"

	"golang.org/x/tools/go/ssa"
)

// encoding/binary over mathematical integers (`mode int`). The package is otherwise executed inline, which in the
// integer encoding turns `uint64(b[0]) | uint64(b[1])<<8 | ...` into bitwise operations on integers that no solver of
// the portfolio handles. These models keep the two directions arithmetic:
//
//	AppendUintN(nil, v)  the bytes (v div 256^k) mod 256, least significant first
//	UintN(b)             sum of b[k] * 256^k  -- and v itself when the bytes are exactly those AppendUintN made of v
//
// They decline (the real body is executed as before) in the bit-vector encoding and for a non-empty destination.

func leBytesOfInt(c *Ctx, v *Term, n int) []*Term {
	out := make([]*Term, n)
	for k := 0; k < n; k++ {
		d := v
		if k > 0 {
			d = c.IDiv(v, c.IntConst(new(big.Int).Lsh(big.NewInt(1), uint(8*k))))
		}
		out[k] = c.IMod(d, c.Inti(256))
	}
	return out
}

func intrLEAppendInt(n int) intrinsic {
	return func(e *Exec, st *State, fr *Frame, args []Val, in ssa.Instruction, rt types.Type) []callRes {
		if !e.IntMode || len(args) != 3 {
			return nil
		}
		b, okb := args[1].(*SliceVal)
		v, okv := args[2].(*Term)
		if !okb || !okv || !b.Len.IsConst() || b.Len.C.Sign() != 0 {
			return nil
		}
		return []callRes{{st, e.byteSliceOf(st, leBytesOfInt(e.C, v, n), "binary.append")}}
	}
}

func intrLEUintInt(n int) intrinsic {
	return func(e *Exec, st *State, fr *Frame, args []Val, in ssa.Instruction, rt types.Type) []callRes {
		if !e.IntMode || len(args) != 2 {
			return nil
		}
		b, okb := args[1].(*SliceVal)
		if !okb || b.Obj == 0 {
			return nil
		}
		c := e.C
		e.oblige(st, fr, in, "idx", e.leIdx(e.idx(int64(n)), b.Len))
		if st.Dead {
			return nil
		}
		av := e.sliceBacking(st, b)
		if av == nil {
			return nil
		}
		bs := make([]*Term, n)
		for k := 0; k < n; k++ {
			bs[k] = e.sel(av.C, c.Add(b.Off, e.idx(int64(k))))
		}
		// the bytes of one value, in order: that value
		if t0 := bs[0]; t0.Op == "mod" && len(t0.Args) == 2 {
			v := t0.Args[0]
			same := true
			for k, w := range leBytesOfInt(c, v, n) {
				if w != bs[k] {
					same = false
					break
				}
			}
			if same {
				// v < 256^n holds for the typed value the bytes were made of; without it the sum below is what is read
				lim := c.IntConst(new(big.Int).Lsh(big.NewInt(1), uint(8*n)))
				if e.quickValid(st, c.And(c.ILe(c.Inti(0), v), c.ILt(v, lim))) {
					return []callRes{{st, v}}
				}
			}
		}
		sum := bs[0]
		for k := 1; k < n; k++ {
			sum = c.Add(sum, c.Mul(bs[k], c.IntConst(new(big.Int).Lsh(big.NewInt(1), uint(8*k)))))
		}
		return []callRes{{st, sum}}
	}
}

func init() {
	for _, w := range []struct {
		n    int
		name string
	}{{2, "16"}, {4, "32"}, {8, "64"}} {
		a := "(encoding/binary.littleEndian).AppendUint" + w.name
		u := "(encoding/binary.littleEndian).Uint" + w.name
		intrinsics[a] = intrLEAppendInt(w.n)
		intrinsics[u] = intrLEUintInt(w.n)
		declining[a] = true
		declining[u] = true
	}
}
