; Character classes used by the text-format contracts (ASCII).
(define-fun ishex ((b (_ BitVec 8))) Bool
  (or (and (bvule #x30 b) (bvule b #x39)) (and (bvule #x61 b) (bvule b #x66)) (and (bvule #x41 b) (bvule b #x46))))
(define-fun islowerhex ((b (_ BitVec 8))) Bool
  (or (and (bvule #x30 b) (bvule b #x39)) (and (bvule #x61 b) (bvule b #x66))))
(define-fun isdigit ((b (_ BitVec 8))) Bool (and (bvule #x30 b) (bvule b #x39)))
(define-fun hexval ((b (_ BitVec 8))) (_ BitVec 8)
  (ite (bvule b #x39) (bvsub b #x30) (ite (bvule b #x46) (bvsub b #x37) (bvsub b #x57))))
