#!/usr/bin/env python3
"""Re-runs the counterexample recorded in a replay file against the real code in /repo.
usage: tools_replay.py <replay.json>   (exit 1 when the recorded violation reproduced at check time, 0 otherwise)"""
import json,sys,os,subprocess,tempfile,re
f=sys.argv[1]
d=json.load(open(f))
r=d.get('replay') or {}
print(f"property {d.get('property')}  obligation {d.get('obligation')}")
print(f"solver verdict: {d.get('status')} ({d.get('solver')})")
if r.get('note'): print('note:', r['note'])
for c in r.get('failed_clauses') or []: print('failed clause:', c)
if r.get('inputs'): print('inputs:', json.dumps(r['inputs']))
src=r.get('test_source'); cmd=r.get('cmd','')
if not src:
    print('no executable counterexample recorded (no-failing-input-found)')
    print((d.get('solver_output') or '')[:2000])
    sys.exit(0)
m=re.search(r'cd (\S+) &&',cmd)
pkgdir=m.group(1) if m else None
if not pkgdir or not os.path.isdir(pkgdir):
    print('package directory of the recorded run not found:', pkgdir); sys.exit(0)
tmp=tempfile.mkdtemp(prefix='govc_replay_')
tf=os.path.join(tmp,'replay_test.go'); open(tf,'w').write(src)
ov=os.path.join(tmp,'ov.json'); json.dump({'Replace':{os.path.join(pkgdir,'govc_replay_gen_test.go'):tf}},open(ov,'w'))
env=dict(os.environ,GOFLAGS='-mod=mod',GOPROXY='off')
p=subprocess.run(['go','test','-tags','verif','-overlay',ov,'-vet=off','-count=1','-timeout','60s','-run','^TestGovcReplayGen$','-v','.'],cwd=pkgdir,env=env,capture_output=True,text=True)
print(p.stdout[-4000:]); print(p.stderr[-1000:])
subprocess.run(['rm','-rf',tmp])
sys.exit(1 if r.get('reproduced') else 0)
