#!/bin/bash
# usage: refactor_test.sh <id> ...  — behaviour-preserving refactorings (no-alarm corpus, archived in /verif/refactors/<id>/; while a
# scratch clone /tmp/wt4/<prop> exists the delivery is first confirmed there: equivalence test passes before and after, suite passes):
# apply to /repo, run the property's quick check (expect exit 0 and no VIOLATION), revert. Never run while another check is running.
cd "$(dirname "$0")" || exit 2
HERE=$(pwd); REPO="${VERIF_REPO:-/repo}"
all=("$@"); [ ${#all[@]} -eq 0 ] && all=($(ls $HERE/refactors | sort))
export GOFLAGS=-mod=mod GOPROXY=off
for s in "${all[@]}"; do
  p=${s%-*}; wt=/tmp/wt4/$p; sd=$HERE/refactors/$s; [ -d $wt/out/$s ] && sd=$wt/out/$s
  f=$(grep -m1 '^+++ b/' "$sd/patch.diff" | sed 's|^+++ b/||'); pkgdir=$(dirname "$f")
  echo "confirm: (archived; confirmed when delivered)" > /tmp/refconf_$s.txt
  [ -d $wt ] && ( cd $wt && git checkout -q -- . && cp $sd/equiv_test.go $pkgdir/zz_equiv_test.go && a=$(go test -vet=off -count=1 -run TestRefactorEquiv ./$pkgdir 2>&1 | tail -1 | cut -c1-40); git apply $sd/patch.diff && b=$(go test -vet=off -count=1 -run TestRefactorEquiv ./$pkgdir 2>&1 | tail -1 | cut -c1-40); rm -f $pkgdir/zz_equiv_test.go; c=$(go test -vet=off -count=1 $(go list ./... | grep -v /out) 2>&1 | grep -v '^ok\|no test files' | head -2); git checkout -q -- .; echo "confirm: before=[$a] after=[$b] suite_failures=[$c]" ) > /tmp/refconf_$s.txt 2>&1
  if [ -n "$(git -C "$REPO" status --porcelain --untracked-files=no)" ]; then echo "repo dirty" >&2; exit 2; fi
  if ! git -C "$REPO" apply $sd/patch.diff; then echo "$s: patch does not apply to /repo"; continue; fi
  GOVC_EVIDENCE_DIR=$HERE/out/evidence_seed ./check $p $ONLY > /tmp/reftest_$s.log 2>&1; rc=$?
  git -C "$REPO" checkout -- .
  echo "$s: exit=$rc viol=$(grep -c '^VIOLATION' /tmp/reftest_$s.log) | $(grep -m4 '^VIOLATION' /tmp/reftest_$s.log | sed 's/.*obligation=//' | cut -c1-140 | tr '\n' ';') | $(tail -1 /tmp/refconf_$s.txt | cut -c1-200)"
done
