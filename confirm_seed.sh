#!/bin/bash
# usage: confirm_seed.sh <worktree> <seeddir> <name>  — confirms a seeded change: compiles, suite passes, demo fails with / passes without.
wt=$1; sd=$2; name=$3
export GOFLAGS=-mod=mod GOPROXY=off
cd "$wt" || exit 2
git checkout -q -- . ; git clean -fdq -e _seed
place=$(head -1 "$sd/demo_test.go" | sed -n 's|^// place at: *||p')
[ -z "$place" ] && { echo "$name: no place line"; exit 2; }
# 1. demo passes on clean tree
cp "$sd/demo_test.go" "$place"
pkg=./$(dirname "$place")
clean=$(go test -vet=off -count=1 "$pkg" 2>&1 | tail -1)
# 2. with patch: suite (without demo) passes; demo fails
rm -f "$place"
git apply "$sd/patch.diff" || { echo "$name: patch does not apply"; exit 2; }
suite=$(go test -vet=off -count=1 ./... 2>&1 | grep -v "^ok\|no test files" | head -5)
cp "$sd/demo_test.go" "$place"
with=$(go test -vet=off -count=1 "$pkg" 2>&1 | tail -1)
rm -f "$place"; git checkout -q -- .
echo "$name: clean=[$clean] suite_failures=[$suite] with_patch=[$with]"
